"""C14 - try/except/else/finally, raise and return follow Python-like control
flow.  Oracle: reference interpreter built on Python's own try semantics."""
from vf import dtml, gen, harness, model
from vf.engine import Acc, hyp_run, shrink_failures

ID = 'C14'
RULE = ('(a) enumerated: every raised class x every handler list of length 1..2 over 9 name sets x else x a second raise in handler / else x 5 block wrappers; every (body action, finally action) pair over {none, raise, return list/int/None} x 7x7 block wrappers; (b) Hypothesis-generated programs over the class hierarchy VfA > VfB > '
        'VfC, unrelated VfX and built-ins (KeyError < LookupError, '
        'ZeroDivisionError < ArithmeticError): try with 1..3 handlers naming '
        '0..2 classes, optional bare except / else, or finally; raising '
        'constructs (dtml-raise by expression or by built-in / zExceptions '
        'name with a rendered message, raising callable, undefined name, '
        '1/0, raising sub-template) and dtml-return (str / int / list / '
        'object / None / callable) at every position of body / handler / '
        'else / finally and inside in / with / let / if / unless, nesting '
        'depth <= 3; printed in one of the three syntaxes.  Outcome (text, '
        'or exception class + message, or the returned object incl. '
        'identity) and the ordered call log must equal the reference '
        'interpreter.  Non-trivial: an exception was matched through a base '
        'class, or several handlers could match, or a raise / return sits '
        '>= 2 blocks deep.  Distinct = hash of (ast, syntax).')
RULE += (
         'Also: during the checked rendering every call of the '
         'recorders ft / fa / ff first renders the same compiled '
         'template again from the top (re-entrancy). ')
RULE += (
         'Application exception hierarchies named like builtins, '
         'raised by called code. ')
RULE += ('Round 10: error_type / error_value noted from every part of a try nested in the handler. ')
ASSUMPTIONS = ['reference interpreter vf/model.py is trusted',
               'dtml-raise of an unknown type name and dtml-return inside a '
               'dtml-raise message body are not generated (not covered by '
               'the statement)']

CFG = gen.Config(kinds=['text', 'var', 'call', 'try', 'try', 'try', 'raise',
                        'raise', 'return', 'boom', 'boom', 'if', 'in', 'with',
                        'let', 'unless', 'sub'],
                 max_depth=3, max_items=3, literals=False, eol=False)
NS = gen.base_ns()
NS_TWINS = dict(NS, **{n: dict(t='exc', n='twin:' + n)
                        for n in ('VfA', 'VfB', 'VfC', 'VfX', 'VfM')})
NS_DEGRADED = {k: v for k, v in NS.items()
               if k not in ('VfA', 'VfB', 'VfC', 'VfX', 'VfM', 'fa', 'vn',
                            'ct', 's2')}


# the namespace of a nested (recursive) rendering of the same template:
# other numbers and texts, so that a value taken from the wrong rendering
# shows
NS_NESTED = dict(NS, vn=8, va='⟦A-nested⟧', vb='⟦B-nested⟧')


def depth_of_exits(ast, d=0):
    best = -1
    for n in ast:
        if n['k'] in ('raise', 'return') or (
                n['k'] in ('var', 'call') and n['ref'].get('n') in
                ('fr', 'cu', 'tx', 'tr')) or (
                n['k'] == 'var' and n['ref'].get('e', {}).get('e') == 'div0'):
            best = max(best, d)
        for b in dtml.subbodies(n):
            best = max(best, depth_of_exits(b, d + 1))
    return best


def run(case):
    ast, sx = case['ast'], case['syntax']
    src, toks = dtml.print_ast(ast, sx, dtml.Style(case['style']))
    try:
        out_m, w_m, ns_m = harness.run_model(ast, NS)
    except model.Unspecified:
        return 'unspecified', set()
    ev = w_m.interp.events
    # the same compiled template has been rendered before, in a namespace
    # in which exception classes and some values were missing (so that
    # dtml-raise expressions, handlers and bodies took other paths)
    tmpl = harness.make_template(src, sx)
    harness.run_impl(src, sx, NS_DEGRADED, template=tmpl)
    # ... and in one where the class names are bound to other classes of
    # the same names but another ancestry
    harness.run_impl(src, sx, NS_TWINS, template=tmpl)
    # ... and while it renders, every call of one of these recorders first
    # renders the template once more from the top (a template that calls
    # itself, e.g. from a finally part with a return pending)
    out_i, w_i, ns_i = harness.run_impl(src, sx, NS, template=tmpl,
                                        reenter=(('ft', 'fa', 'ff'),
                                                 NS_NESTED))
    no_m, no_i = harness.norm_outcome(out_m), harness.norm_outcome(out_i)
    if no_m != no_i:
        kind = 'outcome:%s-instead-of-%s' % (no_i[0], no_m[0])
        if no_m[0] == no_i[0] == 'raise':
            kind = 'wrong-exception' if no_m[1] != no_i[1] else \
                'wrong-message'
        elif no_m[0] == no_i[0] == 'text':
            kind = 'wrong-text'
        elif no_m[0] == no_i[0] == 'return':
            kind = 'wrong-return-value'
        return (kind, 'source %r\n expected %r\n got      %r' % (
            src, no_m, no_i)), ev
    if w_m.log != w_i.log:
        return ('calllog', 'source %r\n expected calls %r\n actual calls   %r'
                % (src, w_m.log, w_i.log)), ev
    if not harness.same_return(out_i, ns_i, out_m, ns_m):
        return ('return-identity', 'source %r returned a copy' % src), ev
    return None, ev


CLASSES = ['VfA', 'VfB', 'VfC', 'VfX', 'VfM', 'KeyError',
           'ZeroDivisionError']
HSETS = [['VfA'], ['VfB'], ['VfC'], ['VfX'], ['LookupError'],
         ['ArithmeticError', 'VfC'], [], ['VfX', 'VfB'], ['Exception']]
WRAPS = ['none', 'in', 'with', 'let', 'if', 'unless-else', 'sub-try']


def T(s):
    return dict(k='text', s=s)


def V(n, **opts):
    return dict(k='var', ref=dict(r='name', n=n),
                opts=[[k, v] for k, v in opts.items()])


def RAISE(cls, msg='m'):
    if cls in ('KeyError', 'ZeroDivisionError'):
        ref = dict(r='type', n=cls)
    else:
        ref = dict(r='expr', e=dict(e='name', n=cls))
    return dict(k='raise', ref=ref, body=[T(msg), V('vn')])


def wrap(kind, nodes):
    if kind == 'none':
        return nodes
    if kind == 'in':
        return [dict(k='in', ref=dict(r='name', n='s2'), opts=[], body=nodes,
                     **{'else': None})]
    if kind == 'with':
        return [dict(k='with', ref=dict(r='name', n='oa'), mapping=False,
                     only=False, body=nodes)]
    if kind == 'let':
        return [dict(k='let', binds=[['la', dict(r='name', n='va')]],
                     body=nodes)]
    if kind == 'if':
        return [dict(k='if', conds=[dict(r='name', n='ct')], bodies=[nodes],
                     **{'else': None})]
    if kind == 'unless-else':
        return [dict(k='if', conds=[dict(r='name', n='cf')], bodies=[[]],
                     **{'else': [dict(k='unless', ref=dict(r='name', n='cf'),
                                      body=nodes)]})]
    if kind == 'sub-try':
        return [dict(k='try', body=nodes, handlers=[dict(
            names=['VfX'], body=[T('outerX('), V('error_type'), T(')')])],
            **{'else': [T('outer-else')], 'finally': None})]
    raise ValueError(kind)


def probe_after():
    return [T('|after:'), V('error_type', missing='-'), V('fa')]


def probe_end():
    """After every enclosing block: nothing of a handled error is bound."""
    return [T('|end:'), V('error_type', missing='-'),
            V('error_value', missing='-'), V('error_tb', missing='-'),
            T('>')]


def enum_except(cls, hsets, has_else, second, inner_wrap, outer_wrap):
    body = [V('fa')]
    if cls:
        body += wrap(inner_wrap, [T('b'), RAISE(cls)])
    body.append(T('body-done'))
    handlers = []
    for i, names in enumerate(hsets):
        hb = [T('H%d(' % i), V('error_type'), T(':'), V('error_value'),
              T(')'), dict(k='call', ref=dict(r='name', n='ft'))]
        if second == 'handler':
            hb.append(RAISE('VfX', 'from-handler'))
        handlers.append(dict(names=names, body=hb))
    els = None
    if has_else:
        els = [T('ELSE'), dict(k='call', ref=dict(r='name', n='ff'))]
        if second == 'else':
            els.append(RAISE('VfX', 'from-else'))
    t = dict(k='try', body=body, handlers=handlers,
             **{'else': els, 'finally': None})
    return wrap(outer_wrap, [T('<'), t] + probe_after()) + probe_end()


def enum_finally(body_act, fin_act, inner_wrap, outer_wrap):
    def act(a, tag):
        if a == 'none':
            return [T(tag)]
        if a.startswith('raise:'):
            return [T(tag), RAISE(a[6:], 'from-' + tag)]
        if a == 'return-list':
            return [T(tag), dict(k='return', ref=dict(r='name', n='s2'))]
        if a == 'return-int':
            return [T(tag), dict(k='return', ref=dict(
                r='expr', e=dict(e='lit', v=42)))]
        if a == 'return-none':
            return [T(tag), dict(k='return', ref=dict(r='name', n='vnone'))]
        raise ValueError(a)
    t = dict(k='try', body=[V('fa')] + wrap(inner_wrap, act(body_act,
                                                            'body')),
             handlers=[], **{'else': None,
                             'finally': [dict(k='call', ref=dict(
                                 r='name', n='ft'))] + act(fin_act, 'fin')})
    return wrap(outer_wrap, [T('<'), t, T('|after'), V('fa')]) + probe_end()


def enum_raise_body_fails(cls, fk, hs):
    """dtml-raise whose message body cannot be rendered: the named class is
    raised all the same (the message is not specified)."""
    bad = {'div0': dict(k='var', ref=dict(r='expr', e=dict(e='div0')),
                        opts=[]),
           'fr': V('fr'), 'undef': V('cu'),
           'type': dict(k='var', ref=dict(r='expr', e=dict(
               e='cat', a=dict(e='lit', v=1), b=dict(e='callname',
                                                     n='vn'))), opts=[])}[fk]
    r = RAISE(cls)
    r['body'] = [T('m'), bad]
    handlers = [dict(names=names, body=[T('H%d(' % i), V('error_type'),
                                         T(')')])
                for i, names in enumerate(hs)]
    t = dict(k='try', body=[V('fa'), r, T('not-reached')], handlers=handlers,
             **{'else': None, 'finally': None})
    return [T('<'), t] + probe_after() + probe_end()


USER_HANDLERS = [['ServiceError'], ['ConnectionError'], ['TimeoutError'],
                 ['OSError'], ['NotFound'], ['KeyError'], ['LookupError'],
                 ['Exception'], []]


def enum_user_named(raiser, hs, wrapk):
    """Python code called from the try body raises a class of the
    application's own hierarchy whose names are also builtin names."""
    handlers = [dict(names=names, body=[T('H%d(' % i), V('error_type'),
                                         T(')')])
                for i, names in enumerate(hs)]
    t = dict(k='try', body=[V('fa')] + wrap(wrapk, [T('b'), V(raiser)]) +
             [T('not-reached')], handlers=handlers,
             **{'else': None, 'finally': None})
    outer = dict(k='try', body=[T('<'), t], handlers=[
        dict(names=['ServiceError'], body=[T('outer-svc')]),
        dict(names=[], body=[T('outer-any:'), V('error_type')])],
        **{'else': None, 'finally': None})
    return [outer] + probe_after() + probe_end()


def enum_cases():
    import itertools
    for raiser in ('fut', 'fuc', 'fun', 'fuk'):
        for hs in [[h] for h in USER_HANDLERS] + [
                [a, b] for a, b in itertools.product(USER_HANDLERS, repeat=2)
                if a != b and a != []]:
            for wrapk in ('none', 'in', 'let'):
                yield ['user-named', raiser, hs, wrapk]
    for cls in ('VfA', 'VfB', 'VfM', 'KeyError', 'ZeroDivisionError'):
        for fk in ('div0', 'fr', 'undef', 'type'):
            for hs in [[h] for h in HSETS] + [[['VfX'], ['VfB']],
                                              [['ArithmeticError'], []]]:
                yield ['raise-body-fails', cls, fk, hs]
    for cls in CLASSES + [None]:
        lists = [[h] for h in HSETS] + [
            [a, b] for a, b in itertools.product(HSETS, repeat=2)
            if not (a == [] and b == [])]
        for hs in lists:
            for has_else in (False, True):
                for second in (None, 'handler', 'else'):
                    if second == 'else' and not has_else:
                        continue
                    for iw, ow in (('none', 'none'), ('in', 'with'),
                                   ('let', 'sub-try'), ('if', 'in'),
                                   ('unless-else', 'let')):
                        yield ['except', cls, hs, has_else, second, iw, ow]
    acts = ['none', 'raise:VfB', 'raise:KeyError', 'return-list',
            'return-int', 'return-none']
    for ba in acts:
        for fa in acts:
            for iw in WRAPS:
                for ow in WRAPS:
                    yield ['finally', ba, fa, iw, ow]


def enum_ast(c):
    if c[0] == 'user-named':
        return enum_user_named(*c[1:])
    if c[0] == 'raise-body-fails':
        return enum_raise_body_fails(*c[1:])
    if c[0] == 'except':
        return enum_except(*c[1:])
    return enum_finally(*c[1:])


def strategy():
    from hypothesis import strategies as st
    small = st.lists(gen.node(CFG, 1, ()), max_size=2)
    forced = st.builds(lambda pre, t, post: pre + [t] + post, small,
                       gen.node_of(CFG, 'try', 0, ()), small)
    return st.fixed_dictionaries(dict(
        ast=st.one_of(forced, forced, gen.template(CFG)), style=gen.style(),
        syntax=st.sampled_from(['dtml', 'ssi', 'epfs'])))


def bound_in_handler_cases():
    """error_type / error_value are the caught exception's everywhere
    inside the handler - also in the finally part of a try nested in it
    while something else is pending there (observed through a call, since
    the text of that part is discarded with the pending exception)."""
    inner = {
        'raises': '<dtml-raise KeyError>inner</dtml-raise>',
        'returns': '<dtml-return "\'R\'">',
        'ends': 'fine',
        'calls-failing': '<dtml-var boom>',
    }
    probe = ('<dtml-call "note(error_type, _.str(error_value))">'
             '<dtml-var error_type>')
    wraps = {
        'try-finally': '<dtml-try>%(inner)s<dtml-finally>%(probe)s</dtml-try>',
        'try-finally-in-try': '<dtml-try><dtml-try>%(inner)s<dtml-finally>'
                              '%(probe)s</dtml-try><dtml-except KeyError '
                              'ZeroDivisionError>k<dtml-call "note(\'inner:\' '
                              '+ error_type, 1)"></dtml-try>%(probe)s',
        'try-except-else': '<dtml-try>%(inner)s<dtml-except KeyError>'
                           '<dtml-call "note(\'inner:\' + error_type, '
                           '_.str(error_value))"><dtml-else>e</dtml-try>'
                           '%(probe)s',
        'in-loop': '<dtml-in "(1, 2)"><dtml-try>%(inner)s<dtml-finally>'
                   '%(probe)s</dtml-try></dtml-in>',
    }
    for outer_cls, outer_msg in (('VfB', 'outer'), ('ValueError', 'ov')):
        for wn, w in sorted(wraps.items()):
            for iname, itext in sorted(inner.items()):
                how = 'expr="VfB"' if outer_cls == 'VfB' else outer_cls
                src = ('<dtml-try><dtml-raise %s>%s</dtml-raise><dtml-except '
                       '%s>%s|%s</dtml-try>' % (
                           how, outer_msg, outer_cls,
                           w % dict(inner=itext, probe=probe), probe))
                yield dict(bound=True, src=src, outer=[outer_cls, outer_msg],
                           wrap=wn, inner=iname)


def check_bound(case):
    from DocumentTemplate import HTML
    from vf.values import EXC
    notes = []

    def note(t, v):
        notes.append([t, v])
        return ''

    def boom():
        raise ZeroDivisionError('boom')
    try:
        HTML(case['src'])(note=note, boom=boom, VfB=EXC['VfB'])
    except Exception:
        pass
    cls, msg = case['outer']
    bad = [n for n in notes if not n[0].startswith('inner:') and
           n != [cls, msg]]
    if bad:
        return ('handler-bindings', '%r: inside the handler of %s(%r) '
                'error_type / error_value were seen as %r' % (
                    case['src'], cls, msg, notes))
    return None


def plan(tier, seed):
    n = 300 if tier == 'quick' else 4000
    shards = [dict(kind='random', seed=seed * 1000 + i, n=n)
              for i in range(12)]
    for i in range(12):
        shards.append(dict(kind='enum', part=i, parts=12))
    shards.append(dict(kind='bound'))
    return shards


def run_shard(shard):
    acc = Acc(ID, sample_every=37)
    if shard['kind'] == 'bound':
        for case in bound_in_handler_cases():
            bad = check_bound(case)
            acc.case(case, True, klass='bindings-inside-handler',
                     distinct_by_construction=True)
            if bad:
                acc.fail(bad[0], case, bad[1])
        return acc.result()
    if shard['kind'] == 'enum':
        for idx, c in enumerate(enum_cases()):
            if idx % shard['parts'] != shard['part']:
                continue
            sx = ('dtml', 'ssi', 'epfs')[idx % 3]
            case = dict(ast=enum_ast(c), syntax=sx, style=[0], enum=c)
            bad, ev = run(case)
            nt = bool(ev & {'matched-through-base-class',
                            'several-handlers-match'}) or \
                depth_of_exits(case['ast']) >= 2
            acc.case(c, nt, klass=['enumerated:' + c[0]] + sorted(ev),
                     distinct_by_construction=True,
                     sample=dict(enum=c, source=dtml.print_ast(
                         case['ast'], sx)[0]))
            if bad and bad != 'unspecified':
                acc.fail(bad[0], dict(enum=c, syntax=sx), bad[1])
        return acc.result()
    strat = strategy()

    def one(case):
        bad, ev = run(case)
        nt = bool(ev & {'matched-through-base-class',
                        'several-handlers-match'}) or \
            depth_of_exits(case['ast']) >= 2
        acc.case(case, nt, klass=['program'] + sorted(ev) + (
            ['unspecified'] if bad == 'unspecified' else []))
        if bad and bad != 'unspecified':
            acc.fail(bad[0], case, bad[1])
    hyp_run(strat, one, shard['n'], shard['seed'])

    def bucket_of(c):
        b, _ = run(c)
        return b[0] if b and b != 'unspecified' else None
    shrink_failures(acc, strat, bucket_of, shard['seed'])
    return acc.result()


def replay(case):
    if isinstance(case, dict) and case.get('bound'):
        return check_bound(case)
    if 'enum' in case and 'ast' not in case:
        case = dict(ast=enum_ast(case['enum']), syntax=case['syntax'],
                    style=[0])
    b, _ = run(case)
    return b if b and b != 'unspecified' else None
