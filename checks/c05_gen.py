"""C05, generated part: random *compositions* of the reading channels.

A Hypothesis grammar produces DTML sources that nest with / with only / in
(batches, skip_unauthorized, prefix, no_push_item) / let / if / try-except /
sub-template calls around leaves that read attributes and items by name, by
expression (attribute, subscript, _.getattr, _['sequence-item']), through
fmt= methods and through entities, over an object graph of depth 3
(o, s[i], lst[i], .child, .kids[j]).  A random guard policy refuses
(role, index, attribute) triples and (sequence role, index) items.

Oracle: value non-interference.  The graph is built twice; every value that
is only reachable through a refused read (or an underscore name) carries the
marker SECRET and differs between the two builds, every other value is equal.
The two renderings must have the same outcome and no SECRET may appear.

The channels recorded as known findings (sequence-var-x, first-/last-x,
statistics, sort keys, tree sort / id / url) are exercised by the channel
catalogue in c05.py and are not generated here."""
from hypothesis import strategies as st

ATTRS = ('pub', 'sec', 'num', 'meth', 'child', 'kids', '_prv', '_kid')
PLAIN = ('pub', 'sec', 'num')
ROLES = ('o', 's', 'lst', 'child', 'kids', 'it', 'gv', 'dv')


class GP:
    """Node of the object graph.  Attribute values are set by build()."""

    item_refused = False     # the guard refuses to hand out this item

    def __init__(self, role, idx, path):
        self.role, self.idx, self.path = role, idx, path

    def __repr__(self):
        return '<GP %s>' % self.path

    # folder-like: the object can also be read as a mapping of its own
    # attributes (dtml-with without 'mapping' must still treat it as an
    # object and go through the guard)
    def keys(self):
        return [k for k in self.__dict__ if k not in ('role', 'idx', 'path')]

    def __getitem__(self, name):
        if not isinstance(name, str):
            raise KeyError(name)
        try:
            return self.__dict__[name]
        except KeyError:
            raise KeyError(name)


class GMeth:
    """Method (any arguments) with a stable repr."""

    def __init__(self, v):
        self.v = v

    def __call__(self, *args, **kw):
        return self.v

    def __repr__(self):
        return '<GMeth>'


class GSeq:
    """Custom sequence (guarded by item)."""

    def __init__(self, role, path, items):
        self.role, self.path, self.items = role, path, list(items)

    def __getitem__(self, i):
        return self.items[i]

    def __len__(self):
        return len(self.items)

    def __repr__(self):
        return '<GSeq %s>' % self.path


class GList(list):
    """Built-in list that the guard can recognise."""
    role = 'lst'
    path = 'lst'


# method names that helper code of a template engine is tempted to call on
# a value directly; here they are attributes the guard always refuses
WELL_KNOWN = ('strftime', 'isoformat', 'read', 'items', 'values', 'get',
              'getId', 'title_or_id', 'absolute_url', 'index_html',
              'tpValues', 'tpId', 'tpURL')


def attr_denied(policy, role, idx, name):
    if name[:1] == '_' or name in WELL_KNOWN:
        return True
    for r, i, n in policy.get('attr', ()):
        if n == name and r in ('*', role) and i in ('*', idx):
            return True
    return False


def item_denied(policy, role, idx):
    for r, i in policy.get('item', ()):
        if r in ('*', role) and i in ('*', idx):
            return True
    return False


def build(policy, run, depth=2):
    """-> namespace dict.  `run` only influences values behind refused reads."""
    def val(obj_path, name, hidden, numeric=False):
        if hidden:
            if numeric:
                return (7000 if run == 'A' else 9000) + len(obj_path)
            return 'SECRET-%s-%s.%s' % (run, obj_path, name)
        if numeric:
            return 10 + len(obj_path)
        return 'OK-%s.%s' % (obj_path, name)

    def node(role, idx, path, ghost, d, refused=False):
        n = GP(role, idx, path)
        n.item_refused = refused

        def hid(name):
            return ghost or attr_denied(policy, role, idx, name)
        n.pub = val(path, 'pub', hid('pub'))
        n.sec = val(path, 'sec', hid('sec'))
        n._prv = val(path, '_prv', True)
        n.num = val(path, 'num', hid('num'), numeric=True)
        n.meth = GMeth(val(path, 'meth', hid('meth')))
        for wk in WELL_KNOWN:
            setattr(n, wk, GMeth(val(path, wk, True)))
        if d > 0:
            n.child = node('child', 0, path + '.child', hid('child'), d - 1)
            n._kid = node('child', 0, path + '._kid', True, 0)
            kg = hid('kids')
            n.kids = GSeq('kids', path + '.kids', [
                node('kids', j, '%s.kids[%d]' % (path, j),
                     kg or item_denied(policy, 'kids', j), d - 1,
                     item_denied(policy, 'kids', j))
                for j in range(2)])
        return n

    o = node('o', 0, 'o', False, depth)
    def items(role, n=3):
        return [node(role, i, '%s[%d]' % (role, i),
                     item_denied(policy, role, i), depth - 1,
                     item_denied(policy, role, i)) for i in range(n)]
    s = GSeq('s', 's', items('s'))
    lst = GList(items('lst'))
    # lazily produced sequences (one-shot: the graph is built per rendering)
    it = iter(items('it'))
    gv = (x for x in items('gv'))
    dv = dict(zip('abc', items('dv'))).values()
    return dict(o=o, s=s, lst=lst, it=it, gv=gv, dv=dv)


_CLS = {}


def guarded_class():
    if 'G' in _CLS:
        return _CLS['G']
    from DocumentTemplate import HTML
    from zExceptions import Unauthorized
    mark = []

    class Guarded(HTML):
        policy = {}
        stats = None
        # a lenient guard applies its policy but does not itself refuse
        # underscore names: that protection must come from the engine
        lenient = False

        def guarded_getattr(self, inst, name, default=mark):
            if isinstance(inst, GP) and attr_denied(
                    self.policy, inst.role, inst.idx, name) and not (
                        self.lenient and name[:1] == '_'):
                if self.stats is not None:
                    self.stats['refused'] += 1
                raise Unauthorized(name)
            if name[:1] == '_' and not self.lenient:
                raise Unauthorized(name)
            try:
                v = getattr(inst, name)
            except AttributeError:
                if default is not mark:
                    return default
                raise
            if self.stats is not None:
                self.stats['granted'] += 1
            return v

        def guarded_getitem(self, ob, index):
            # like AccessControl, the decision is about the value handed out
            v = ob[index]
            if getattr(v, 'item_refused', False) and (
                    isinstance(v, GP) and item_denied(self.policy, v.role,
                                                      v.idx)):
                if self.stats is not None:
                    self.stats['refused'] += 1
                raise Unauthorized('item %r' % (index,))
            return v

    _CLS['G'] = Guarded
    return Guarded


# ------------------------------------------------------------- the grammar
#
# scope = dict(refs=[expression text denoting a GP object ...],
#              seqs=[expression text denoting a sequence of GP ...],
#              pushed=bool (a GP object's attributes resolve by name),
#              in_item=bool, names=[let-bound object names])

def _refs(scope):
    r = list(scope['refs'])
    if scope['pushed']:
        r.append('child')
    if scope['in_item']:
        r.append("_['sequence-item']")
    return r


def _seqs(scope):
    s = list(scope['seqs'])
    if scope['pushed']:
        s.append('kids')
    return s


@st.composite
def ref(draw, scope, depth=1):
    base = draw(st.sampled_from(_refs(scope)))
    for _ in range(draw(st.integers(0, depth))):
        step = draw(st.sampled_from(['.child', '.kids[0]', '.kids[1]'] * 6
                                    + ['._kid']))
        base += step
    return base


@st.composite
def seqref(draw, scope):
    if draw(st.integers(0, 2)) == 0:
        return draw(ref(scope, 0)) + '.kids'
    return draw(st.sampled_from(_seqs(scope)))


@st.composite
def leaf(draw, scope):
    k = draw(st.integers(0, 13))
    a = draw(st.sampled_from((PLAIN + ('meth', 'pub', 'sec')) * 3 +
                             ('_prv',)))
    if k == 12:
        return '<dtml-var "%s" fmt="%s">' % (draw(ref(scope)), draw(
            st.sampled_from(['%s|', '%Y-%m-%d', '%10s', '[%r]'])))
    if k == 13:
        return '<dtml-var "%s" fmt=%s>' % (draw(ref(scope)), draw(
            st.sampled_from(WELL_KNOWN[:6] + ('meth',))))
    if k == 0 and scope['pushed']:
        return '<dtml-var %s missing="-">' % draw(st.sampled_from(
            PLAIN + ('meth', '_prv', 'pub', 'sec')))
    if k == 1 and scope['pushed']:
        return '&dtml-%s;' % draw(st.sampled_from(PLAIN))
    if k in (0, 1):
        k = 2
    if k == 2:
        return '<dtml-var "%s.%s">' % (draw(ref(scope)), a)
    if k == 3:
        return '<dtml-var "%s.meth()">' % draw(ref(scope))
    if k == 4:
        return '<dtml-var "%s[%d].%s">' % (
            draw(seqref(scope)), draw(st.integers(0, 2)),
            draw(st.sampled_from(PLAIN)))
    if k == 5:
        return '<dtml-var "_.getattr(%s, \'%s\', \'dflt\')">' % (
            draw(ref(scope)), a)
    if k == 6:
        return '<dtml-var "%s" fmt=%s>' % (
            draw(ref(scope)), draw(st.sampled_from(['meth', 'meth', 'meth',
                                                    '_prv'])))
    if k == 7:
        return '<dtml-var "%s.%s" html_quote upper>' % (draw(ref(scope)), a)
    if k == 8:
        return '<dtml-var "_[\'%s\']" missing="-">' % a \
            if scope['pushed'] else '<dtml-var "%s.%s">' % (
                draw(ref(scope)), a)
    if k == 9:
        return '<dtml-var "(%s.%s, %s.%s)">' % (
            draw(ref(scope)), a, draw(ref(scope)),
            draw(st.sampled_from(PLAIN)))
    if k == 10:
        return '<dtml-call "%s.%s">' % (draw(ref(scope)), a)
    return '<dtml-var "%s.%s" size=40 etc="~">' % (draw(ref(scope)), a)


def _sub(scope, **kw):
    d = dict(scope)
    d.update(kw)
    return d


@st.composite
def block(draw, scope, depth):
    k = draw(st.integers(0, 9))
    inner = depth - 1
    if k == 0:
        r = draw(ref(scope))
        only = draw(st.sampled_from(['', '', ' only']))
        sc = _sub(scope, pushed=True)
        if only:
            # nothing of the outer namespace is visible inside 'only'
            sc = dict(refs=[], seqs=[], pushed=True, in_item=False, names=[],
                      top_iters=False)
        return '<dtml-with "%s"%s>%s</dtml-with>' % (
            r, only, draw(body(sc, inner)))
    if k == 1:
        sq = draw(seqref(scope))
        if scope.get('top_iters') and draw(st.integers(0, 3)) == 0:
            sq = draw(st.sampled_from(['it', 'gv', 'dv']))
        opts = ''
        if draw(st.integers(0, 5)) == 0:
            opts += draw(st.sampled_from([' reverse', ' reverse_expr="1"',
                                          ' reverse_expr="0"']))
        if draw(st.booleans()):
            opts += ' skip_unauthorized'
        if draw(st.integers(0, 3)) == 0:
            opts += ' size=2 orphan=0'
            if draw(st.booleans()):
                opts += ' start=2'
        push = True
        if draw(st.integers(0, 4)) == 0:
            opts += ' no_push_item'
            push = scope['pushed']
        if 'skip_unauthorized' in opts and draw(st.booleans()):
            # read the item through the item variables
            sc0 = _sub(scope, pushed=push, in_item=True, refs=[])
            return '<dtml-in "%s"%s>%s;<dtml-else>none</dtml-in>' % (
                sq, opts, draw(leaf(sc0)))
        if draw(st.integers(0, 4)) == 0:
            opts += ' prefix=it'
        sc = _sub(scope, pushed=push, in_item=True)
        return '<dtml-in "%s"%s>%s;<dtml-else>none</dtml-in>' % (
            sq, opts, draw(body(sc, inner)))
    if k == 2:
        q = 'q%d' % depth
        r = draw(ref(scope))
        sc = _sub(scope, refs=scope['refs'] + [q])
        return '<dtml-let %s="%s">%s</dtml-let>' % (q, r,
                                                    draw(body(sc, inner)))
    if k == 3:
        a = draw(st.sampled_from(PLAIN + ('meth',)))
        q = 'v%d' % depth
        r = draw(ref(scope))
        return '<dtml-let %s="%s.%s"><dtml-var %s></dtml-let>' % (q, r, a, q)
    if k == 4:
        r = draw(ref(scope))
        a = draw(st.sampled_from(PLAIN))
        return '<dtml-if "%s.%s">%s<dtml-else>%s</dtml-if>' % (
            r, a, draw(body(scope, inner)), draw(body(scope, inner)))
    if k == 5 and scope['pushed']:
        a = draw(st.sampled_from(PLAIN + ('child', '_prv')))
        return '<dtml-if %s>%s<dtml-else>no</dtml-if>' % (
            a, draw(body(scope, inner)))
    if k == 6:
        return '<dtml-try>%s<dtml-except>(<dtml-var error_type>)%s' \
            '</dtml-try>' % (draw(body(scope, inner)),
                             draw(body(scope, inner)))
    if k == 7:
        return '<dtml-try>%s<dtml-finally>%s</dtml-try>' % (
            draw(body(scope, inner)), draw(leaf(scope)))
    if k == 8 and scope['pushed']:
        # name lookup of a structural attribute pushes the guarded value
        return '<dtml-with child>%s</dtml-with>' % draw(
            body(_sub(scope, pushed=True), inner))
    if k == 9 and scope['pushed']:
        return '<dtml-in kids>%s;</dtml-in>' % draw(
            body(_sub(scope, pushed=True, in_item=True), inner))
    return draw(leaf(scope))


@st.composite
def body(draw, scope, depth):
    n = draw(st.integers(1, 3))
    parts = []
    for _ in range(n):
        if depth > 0 and draw(st.integers(0, 2)) > 0:
            p = draw(block(scope, depth))
        else:
            p = draw(leaf(scope))
        if draw(st.integers(0, 3)) == 0:
            p = '<dtml-try>%s<dtml-except>(<dtml-var error_type>)' \
                '</dtml-try>' % p
        parts.append(p)
    return '|'.join(parts)


TOP = dict(refs=['o', 's[0]', 's[1]', 's[2]', 'lst[0]', 'lst[1]', 'lst[2]'],
           seqs=['s', 'lst'], pushed=False, in_item=False, names=[],
           top_iters=True)


@st.composite
def policy(draw):
    attr = draw(st.lists(st.tuples(
        st.sampled_from(('*',) + ROLES), st.sampled_from(('*', 0, 1, 2)),
        st.sampled_from(('pub', 'sec', 'sec', 'num', 'meth', 'child',
                         'kids'))), min_size=0, max_size=4))
    item = draw(st.lists(st.tuples(
        st.sampled_from(('*', 's', 'lst', 'kids', 'it', 'gv', 'dv')),
        st.sampled_from(('*', 0, 1, 2))), min_size=0, max_size=2))
    # refusing everything everywhere makes every rendering fail at once
    attr = [list(a) for a in attr if not (a[0] == '*' and a[1] == '*' and
                                          a[2] in ('child', 'kids'))]
    return dict(attr=attr, item=[list(i) for i in item])


@st.composite
def case(draw):
    pol = draw(policy())
    client = draw(st.sampled_from([None, None, 'o', 'tuple']))
    top = dict(TOP)
    if client:
        top['pushed'] = True
    src = draw(body(top, 3))
    c = dict(src=src, policy=pol, client=client)
    if draw(st.integers(0, 3)) == 0:
        # the generated body runs inside a sub-template (same guarded
        # class, or a plain unguarded class sharing the namespace)
        c['sub'] = draw(st.sampled_from(['guarded', 'plain']))
    if draw(st.integers(0, 5)) == 0:
        c['plain_first'] = True
    if draw(st.integers(0, 3)) == 0:
        c['lenient'] = True
    if c.get('sub') and draw(st.booleans()):
        # the sub-template object is shared: it was rendered before from a
        # template whose guard refuses nothing
        c['shared'] = True
    return c


def render(c, run, stats=None, shared=None, policy=None):
    from DocumentTemplate import HTML
    G = guarded_class()
    policy = c['policy'] if policy is None else policy
    ns = build(policy, run)
    src = c['src']
    if c.get('plain_first'):
        ns['psub'] = HTML('p')
        src = '<dtml-var psub>' + src
    if c.get('sub'):
        cls = G if c['sub'] == 'guarded' else HTML
        sub = shared if shared is not None else cls(src)
        if cls is G:
            sub.policy, sub.stats = policy, stats
            sub.lenient = bool(c.get('lenient'))
        ns['subt'] = sub
        src = '[<dtml-var subt>]'
    t = G(src)
    t.policy, t.stats = policy, stats
    t.lenient = bool(c.get('lenient'))
    client = None
    if c.get('client') == 'o':
        client = ns['o']
    elif c.get('client') == 'tuple':
        client = (ns['s'][0], ns['o'])
    try:
        out = t(client, ns)
        return ('text', out if isinstance(out, str) else repr(out))
    except Exception as e:
        return ('raise', type(e).__name__)


def check(c):
    """-> (None | (bucket, msg), info)"""
    stats = dict(refused=0, granted=0)
    shared = None
    if c.get('shared') and c.get('sub'):
        from DocumentTemplate import HTML
        shared = (guarded_class() if c['sub'] == 'guarded' else HTML)(
            c['src'])
        render(c, 'W', None, shared, policy=dict(attr=[], item=[]))
    a = render(c, 'A', stats, shared)
    b = render(c, 'B', None, shared)
    info = dict(stats, outcome=a[0], ok='OK-' in a[1] if a[0] == 'text'
                else False)
    for out in (a, b):
        if out[0] == 'text' and 'SECRET' in out[1]:
            return ('gen:leak:refused-value-shown',
                    '%r policy %r client %r: %r' % (
                        c['src'], c['policy'], c.get('client'),
                        out[1][:300])), info
    if a != b:
        return ('gen:leak:outcome-depends-on-refused-value',
                '%r policy %r client %r: %r vs %r' % (
                    c['src'], c['policy'], c.get('client'), a, b)), info
    if a[0] == 'raise' and a[1] not in ('Unauthorized', 'KeyError',
                                        'AttributeError', 'IndexError',
                                        'TypeError', 'ParseError',
                                        'NameError', 'SyntaxError',
                                        'ValueError'):
        return ('gen:unexpected-exception:' + a[1],
                '%r policy %r: %r' % (c['src'], c['policy'], a)), info
    return None, info
