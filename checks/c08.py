"""C08 - namespace stack and recursion level are restored on every exit path.

Fault enumeration: an exception (or dtml-return) is injected at every
namespace-value invocation point k = 1..N of a generated program, singly and
in pairs; the oracle is the identity of the namespace stack."""
import copy

from vf import dtml, gen, harness
from vf.engine import Acc, hyp_run, shrink_failures
from vf.values import Mutator, World, build_ns

ID = 'C08'
RULE = ('Hypothesis-generated programs (in / with / let / if / unless / try '
        'except else finally / raise / return / sub-templates incl. nested '
        'ones / dtml-tree with branches, branches_expr, header / leaves / '
        'footer / expand documents) over a namespace in which every hook '
        'DTML can invoke (recorder callables, __getattr__ of clients, '
        '__getitem__ / __len__ / __iter__ of sequences, mapping reads, '
        '__bool__, __str__, sort-key comparison, fmt= methods, absolute_url, '
        'tree branch / id methods, __render_with_namespace__, callables '
        'that add / remove keys of a mapping on the stack) shares one '
        'invocation counter.  Run 0 counts N; runs k = 1..N raise VfA (and, '
        'for a sample, perform dtml-return) at invocation k; pairs (i < j) '
        'are enumerated for N <= 24 and strided beyond.  The template is '
        'invoked as a sub-template on a harness-owned namespace at level 0, '
        '7, 199 or 200.  Oracle: after the call the namespace holds the same '
        'objects in the same order and the same level; probes placed before '
        'and after every block see identical stacks; the caught namespace '
        'still resolves names.  Non-trivial: the fault fired at stack depth '
        '>= entry + 2, or it fired and was caught inside the program.  '
        'Distinct = hash of (program, level, k, kind).')
RULE += (
         'Batch-link forms (previous / next else parts, batch bodies) '
         'among the enumerated blocks. ')
RULE += ("Round 8: templates that render themselves from inside every binding block and try form until the interpreter's recursion limit (8 alignments) is reached. ")
RULE += ('Round 9: one compiled block tag active twice at a time over different kinds of data. ')
RULE += ('Round 10: mixed sequences among the blocks; tree sub-documents that are absent or None. ')
ASSUMPTIONS = [
    'faults are exceptions / dtml-return raised by namespace values (the '
    'quantifier of the property); RecursionError from exhausting the '
    'interpreter stack is not injected',
    'probes are not placed inside "with ... only" bodies (the probe name is '
    'not visible there) nor in dtml-raise message bodies',
]

CFG = gen.Config(kinds=['text', 'var', 'call', 'if', 'unless', 'in', 'with',
                        'let', 'try', 'try', 'raise', 'return', 'boom', 'sub',
                        'sub', 'hook', 'hook', 'hook', 'tree', 'tree'],
                 max_depth=3, max_items=3, literals=False, eol=False)
LEVELS = [0, 7, 199, 200]


def instrument(ast):
    """Wrap every block node and sub-template call of every body with a probe
    pair.  Returns (ast, {pair_id: kind})."""
    ast = copy.deepcopy(ast)
    kinds = {}

    def walk(nodes, allowed):
        out = []
        for n in nodes:
            k = n['k']
            wrap = allowed and (k in dtml.BLOCK_KINDS or (
                k == 'var' and n['ref'].get('n') in ('ta', 'tr', 'tx', 'tn')))
            if k == 'with' and n.get('only'):
                inner_allowed = False
            elif k in ('raise', 'comment'):
                inner_allowed = False
            else:
                inner_allowed = allowed
            for key in ('body', 'else', 'finally'):
                if isinstance(n.get(key), list):
                    n[key] = walk(n[key], inner_allowed)
            if 'bodies' in n:
                n['bodies'] = [walk(b, inner_allowed) for b in n['bodies']]
            for h in n.get('handlers', ()):
                h['body'] = walk(h['body'], inner_allowed)
            if wrap:
                pid = len(kinds)
                kinds[pid] = k if k != 'var' else 'sub-template'
                out.append(dict(k='var', ref=dict(r='name', n='pb%d' % pid),
                                opts=[]))
                out.append(n)
                out.append(dict(k='var', ref=dict(r='name', n='pa%d' % pid),
                                opts=[]))
            else:
                out.append(n)
        return out
    return walk(ast, True), kinds


def make_ns(kinds, expand_all):
    ns = gen.base_ns(hooks=True)
    for pid in kinds:
        ns['pb%d' % pid] = dict(t='probe', id='b%d' % pid)
        ns['pa%d' % pid] = dict(t='probe', id='a%d' % pid)
    if expand_all:
        ns['expand_all'] = 1
    return ns


_TCACHE = {}


def run_once(src, syntax, ns_spec, level, fault_at=None, kind='raise',
             fault2_at=None):
    """One fault-injection run -> (outcome, world, checks)."""
    from DocumentTemplate._DocumentTemplate import TemplateDict
    from DocumentTemplate.DT_Return import DTReturn
    from DocumentTemplate import HTML
    world = World(return_exc=DTReturn, fault_at=fault_at, fault_kind=kind,
                  fault2_at=fault2_at)
    ns = build_ns(ns_spec, world, 'impl')
    for v in list(ns.values()):
        if isinstance(v, Mutator):
            v.target = ns if v.on is None else ns[v.on]
    t = harness.make_template(src, syntax)
    md = TemplateDict()
    md._push(ns)
    md.guarded_getattr = None
    md.guarded_getitem = None
    md.level = level
    before = (tuple(id(x) for x in md._data), md.level)
    try:
        out = ('text', t(None, md))
    except DTReturn as r:
        out = ('return', r.v)
    except Exception as e:
        out = ('raise', e)
    after = (tuple(id(x) for x in md._data), md.level)
    problems = []
    if after != before:
        problems.append(('toplevel', len(after[0]) - len(before[0]),
                         after[1] - before[1]))
    # probe pairs: every 'after' probe matches the latest open 'before'
    open_ = {}
    for pid, snap in world.probes:
        which, num = pid[0], int(pid[1:])
        if which == 'b':
            open_.setdefault(num, []).append(snap)
        else:
            stack = open_.get(num)
            if not stack:
                continue
            b = stack.pop()
            if b != snap:
                problems.append(('pair', num, len(snap[0]) - len(b[0]),
                                 snap[1] - b[1]))
    # a caller that caught the exception continues with a usable namespace
    if not problems:
        try:
            world.fault_at = world.fault2_at = None
            probe = _TCACHE.get('probe')
            if probe is None:
                probe = _TCACHE['probe'] = HTML('<dtml-var va>|<dtml-var vn>')
            again = probe(None, md)
            if again != '⟦A⟧|7':
                problems.append(('continue', again))
        except Exception as e:
            problems.append(('continue', repr(e)))
    depth_at_fault = None
    return out, world, problems


def hook_at(world, k):
    if k and 0 < k <= len(world.log):
        w = world.log[k - 1]
        return str(w[0])
    return 'none'


def check_program(case, acc=None):
    """All fault runs of one program -> list of (bucket, case, msg)."""
    ast, kinds = instrument(case['ast'])
    ns_spec = make_ns(kinds, case.get('expand_all'))
    sx = case['syntax']
    src, toks = dtml.print_ast(ast, sx)
    level = LEVELS[case['level'] % len(LEVELS)]
    fails = []
    out0, w0, pr0 = run_once(src, sx, ns_spec, level)
    N = w0.counter
    base_depth = 1

    def report(problems, k, kind, k2, out, world):
        for pr in problems:
            hook = hook_at(w0 if k is None else world, k)
            okind = out[0] if out[0] != 'raise' else \
                'raise:' + type(out[1]).__name__
            if pr[0] == 'toplevel':
                b = 'stack-after-call:entries%+d:level%+d:fault-in-%s' % (
                    pr[1], pr[2], hook)
            elif pr[0] == 'pair':
                b = 'stack-after-block:%s:entries%+d:level%+d:fault-in-%s' \
                    % (kinds.get(pr[1]), pr[2], pr[3], hook)
            else:
                b = 'namespace-unusable-after-catch:fault-in-%s' % hook
            if out[0] == 'raise' and isinstance(out[1], SystemError) or \
                    any(isinstance(getattr(e, '__context__', None),
                                   SystemError) for e in [out[1]]
                        if isinstance(e, BaseException)):
                b += ':recursion-guard-tripped'
            fails.append((b, dict(case, fault=[k, kind, k2]),
                          'source %r level=%d fault at invocation %r (%s, '
                          'second %r) outcome %s: %r' % (
                              src, level, k, kind, k2, okind, pr)))

    report(pr0, None, 'none', None, out0, w0)
    runs = [(None, 'none', None)]
    ks = list(range(1, N + 1))
    if N > 60:
        stride = N // 60 + 1
        ks = ks[::stride]
    for k in ks:
        runs.append((k, 'raise', None))
        if k % 3 == 1:
            runs.append((k, 'return', None))
    pairs = [(i, j) for i in range(1, N + 1) for j in range(i + 1, N + 2)]
    if len(pairs) > 300:
        pairs = pairs[::len(pairs) // 300 + 1]
    for i, j in pairs:
        runs.append((i, 'raise', j))
    for k, kind, k2 in runs[1:]:
        out, world, problems = run_once(src, sx, ns_spec, level, k, kind, k2)
        fired = bool(world.fired)
        depth = 0
        # depth of the stack at the last probe seen before the fault
        for pid, snap in world.probes:
            depth = max(depth, len(snap[0]))
        caught = fired and not (out[0] == 'raise' and
                                'injected' in str(out[1]))
        nt = fired and (caught or depth >= base_depth + 2)
        if acc is not None:
            acc.case([case, k, kind, k2], nt, klass=[
                'fault-run', 'fired' if fired else 'not-fired',
                'level-%d' % level] + (['caught-inside'] if caught else []))
        report(problems, k, kind, k2, out, world)
    if acc is not None:
        acc.hist['programs'] += 1
        acc.hist['invocation-points'] += N
    return fails


def enumerated_programs():
    """Every ordered pair of binding blocks around an action, with a
    handler that itself runs an action (all faults are injected into each
    by check_program)."""
    from checks.c02 import BLOCKS

    def v(n):
        return dict(k='var', ref=dict(r='name', n=n), opts=[])
    actions = {
        'grow': [v('mua')], 'shrink': [v('mud')],
        'call': [dict(k='call', ref=dict(r='name', n='fa')), v('hv')],
        'raise': [v('fr')],
        'return': [dict(k='return', ref=dict(r='name', n='vn'))],
        'sub': [v('ta'), v('tx')],
        'sub-cached': [v('tc'), v('va'), v('tc'), v('tc')],
        'sub-cache-hook-fails': [v('tcx'), v('tcx')],
        'with-fill': [dict(k='with', ref=dict(r='name', n='mf'),
                           mapping=True, only=False,
                           body=[v('muf'), v('va')])],
        'with-empty': [dict(k='with', ref=dict(r='name', n='me'),
                            mapping=True, only=False,
                            body=[v('va'), v('mue'), v('vb')])],
        'subcall-tuple': [dict(k='var', ref=dict(r='expr', e=dict(
            e='raw', s='ta((oa, ho), _)')), opts=[])],
        'subcall-empty': [dict(k='var', ref=dict(r='expr', e=dict(
            e='raw', s='ta((), _)')), opts=[])],
    }
    def _in(opts, b, in_else=False):
        o = [[x, None] if '=' not in x else x.split('=') for x in opts.split()]
        if in_else:
            return dict(k='in', ref=dict(r='name', n='s2'), opts=o,
                        body=[dict(k='text', s='link')], **{'else': b})
        return dict(k='in', ref=dict(r='name', n='s2'), opts=o, body=b,
                    **{'else': None})
    # the batching renderer and its link forms: the else part of a
    # previous / next form without such a batch, bodies of batches
    extra = {
        'in-previous-else': lambda b: _in('previous size=1 start=1', b, True),
        'in-next-else': lambda b: _in('next size=5', b, True),
        'in-batch': lambda b: _in('size=1 start=1 orphan=0', b),
        'in-batch-overlap': lambda b: _in('size=2 start=2 overlap=1', b),
    }
    BLOCKS = dict(BLOCKS, **extra)
    kinds = sorted(BLOCKS)
    few = ('let', 'in', 'with', 'try-finally', 'in-next-else')
    for i, outer in enumerate(kinds):
        for j, inner in enumerate(kinds):
            if outer in extra and inner not in few:
                continue
            for k, (an, act) in enumerate(sorted(actions.items())):
                if (i + j + k) % 2:
                    continue            # half of the product, evenly spread
                handler_act = actions[sorted(actions)[(i + j + k) % len(
                    actions)]]
                prog = [dict(k='try', body=[BLOCKS[outer]([
                    v('va'), BLOCKS[inner](act + [v('vb')]), v('fa')])],
                    handlers=[dict(names=[], body=handler_act + [v('va')])],
                    **{'else': None, 'finally': None}), v('vn')]
                yield dict(ast=prog, syntax=('dtml', 'ssi', 'epfs')[
                    (i + j) % 3], level=(i + k) % 4, expand_all=False,
                    family='%s/%s/%s' % (outer, inner, an))


TREE_OPTS = [
    [], [['branches', 'kids']], [['branches_expr', 'kids()']],
    [['branches_expr', 'fr()']], [['sort', 'nid']], [['header', 'ta']],
    [['leaves', 'ta']], [['footer', 'tx']], [['expand', 'ta']],
    [['reverse', None]], [['branches_expr', 'kids()'], ['header', 'tx']],
    [['assume_children', None]], [['single', None]],
    [['skip_unauthorized', None]], [['branches', 'kids'], ['leaves', 'tr']],
    [['branches_expr', 'fr()'], ['leaves', 'tx']],
    [['branches_expr', 'cu']], [['branches', 'nosuch']],
    # sub-documents that are named but absent, or None
    [['leaves', 'nodoc']], [['expand', 'nodoc']], [['header', 'nodoc']],
    [['footer', 'nodoc']], [['leaves', 'vnone']], [['expand', 'vnone']],
    [['expand', 'nodoc'], ['leaves', 'vnone'], ['branches', 'kids']],
]


def enumerated_tree_programs():
    """dtml-tree with every option set of the table, with and without
    expand_all, plain and inside let / with / in."""
    def v(n):
        return dict(k='var', ref=dict(r='name', n=n), opts=[])
    body = [v('title'), v('tpId'), dict(k='text', s='n'), v('fa')]
    wraps = [
        lambda t: [t],
        lambda t: [dict(k='let', binds=[['la', dict(r='name', n='va')]],
                        body=[t, v('la')])],
        lambda t: [dict(k='with', ref=dict(r='name', n='oa'), mapping=False,
                        only=False, body=[t, v('xo')])],
        lambda t: [dict(k='in', ref=dict(r='name', n='s2'), opts=[],
                        body=[t], **{'else': None})],
        lambda t: [dict(k='try', body=[t], handlers=[dict(
            names=[], body=[v('va')])], **{'else': None, 'finally': None})],
    ]
    for i, opts in enumerate(TREE_OPTS):
        for expand_all in (False, True):
            for j, w in enumerate(wraps):
                t = dict(k='tree', ref=dict(r='name', n='tq'), opts=opts,
                         body=body)
                yield dict(ast=w(t) + [v('vn')], syntax='dtml',
                           level=(i + j) % 4, expand_all=expand_all,
                           family='tree/%d/%d/%d' % (i, expand_all, j))


def _depth():
    import sys
    f, n = sys._getframe(), 0
    while f is not None:
        f, n = f.f_back, n + 1
    return n


def _one_element_loops(x):
    if isinstance(x, dict):
        if x.get('r') == 'name' and x.get('n') in ('s2', 'sm', 'smix'):
            return dict(x, n=x['n'] + '1')
        return {k: _one_element_loops(v) for k, v in x.items()}
    if isinstance(x, list):
        return [_one_element_loops(v) for v in x]
    return x


def recursive_programs(deltas=(300, 301, 302, 303, 304, 305, 306, 307)):
    """Templates that render themselves (a site map, a threaded discussion)
    from inside every binding block, with a handler on the way: the
    recursion ends where the interpreter's own recursion limit is reached,
    which is before the engine's level counter says stop."""
    from checks.c02 import BLOCKS

    def v(n):
        return dict(k='var', ref=dict(r='name', n=n), opts=[])

    def t(s):
        return dict(k='text', s=s)
    calls = {
        'by-name': [v('rec')],
        'by-call': [dict(k='var', ref=dict(r='expr', e=dict(
            e='raw', s='rec(_.None, _)')), opts=[])],
        'in-loop': [dict(k='in', ref=dict(r='name', n='s2'), opts=[],
                         body=[v('rec')], **{'else': None})],
    }
    trys = {
        'except': lambda b: dict(k='try', body=b, handlers=[dict(
            names=[], body=[t('c'), v('vb')])],
            **{'else': None, 'finally': None}),
        'except-named': lambda b: dict(k='try', body=b, handlers=[
            dict(names=['VfA'], body=[t('a')]),
            dict(names=['RuntimeError'], body=[t('r'), v('error_type')])],
            **{'else': [t('e')], 'finally': None}),
        'finally': lambda b: dict(k='try', body=b, handlers=[],
                                  **{'else': None, 'finally': [v('vb')]}),
        'none': lambda b: dict(k='if', conds=[dict(r='name', n='ct')],
                               bodies=[b], **{'else': None}),
    }
    for outer in sorted(BLOCKS) + ['none']:
        for tn, tr in sorted(trys.items()):
            for cn, call in sorted(calls.items()):
                inner = [v('va'), tr(call + [v('vb')]), v('vn')]
                prog = inner if outer == 'none' else \
                    [v('va'), BLOCKS[outer](inner), v('vb')]
                # loops run over one element (the recursion stays a chain,
                # not a tree)
                prog = _one_element_loops(prog)
                for delta in deltas:
                    yield dict(recursive=True, ast=prog, outer=outer, tryk=tn,
                               call=cn, delta=delta,
                               syntax=('dtml', 'ssi', 'epfs')[delta % 3])


def check_recursive(case):
    """-> list of (bucket, case, msg)"""
    import sys
    from DocumentTemplate._DocumentTemplate import TemplateDict
    from DocumentTemplate.DT_Return import DTReturn
    from DocumentTemplate import HTML
    world = World(return_exc=DTReturn)
    spec = gen.base_ns(hooks=True)
    spec['s21'] = dict(spec['s2'], items=spec['s2']['items'][:1])
    spec['sm1'] = dict(spec['sm'], items=spec['sm']['items'][:1])
    spec['smix1'] = dict(spec['smix'], items=spec['smix']['items'][1:2])
    ns = build_ns(spec, world, 'impl')
    src, _ = dtml.print_ast(case['ast'], case['syntax'])
    t = harness.make_template(src, case['syntax'])
    ns['rec'] = t
    md = TemplateDict()
    md._push(ns)
    md.guarded_getattr = None
    md.guarded_getitem = None
    md.level = 0
    before = (tuple(id(x) for x in md._data), md.level)
    import gc
    old = sys.getrecursionlimit()
    gc_was = gc.isenabled()
    gc.disable()      # collector callbacks of the harness need stack, too
    sys.setrecursionlimit(_depth() + case['delta'])
    try:
        try:
            out = ('text', t(None, md))
        except DTReturn as r:
            out = ('return', r.v)
        except Exception as e:
            out = ('raise', e)
    finally:
        sys.setrecursionlimit(old)
        if gc_was:
            gc.enable()
    after = (tuple(id(x) for x in md._data), md.level)
    okind = out[0] if out[0] != 'raise' else 'raise:' + type(out[1]).__name__
    fails = []
    if after != before:
        fails.append((
            'stack-after-call:recursive:%s:entries%+d:level%+d' % (
                case['tryk'], len(after[0]) - len(before[0]),
                after[1] - before[1]), case,
            'self-rendering template %r ended (%s) at the interpreter\'s '
            'recursion limit: the namespace holds %d entries, level %d; on '
            'entry %d, level %d' % (src, okind, len(after[0]), after[1],
                                    len(before[0]), before[1])))
    else:
        try:
            again = HTML('<dtml-var va>|<dtml-var vn>')(None, md)
        except Exception as e:
            again = repr(e)
        if again != '⟦A⟧|7':
            fails.append(('namespace-unusable-after-catch:recursive', case,
                          '%r then gives %r' % (src, again)))
    return fails, okind


class _Obj:
    def __init__(self, **kw):
        self.__dict__.update(kw)


REENTER_SEQS = {
    'objs': lambda: [_Obj(a=1), _Obj(a=2)],
    'strs': lambda: ['s', 't'],
    'obj-str': lambda: [_Obj(a=1), 'tail'],
    'str-obj': lambda: ['head', _Obj(a=2)],
    'ints': lambda: [1, 2, 3],
    'pairs': lambda: [('k', _Obj(a=1)), ('l', 'str')],
    'one': lambda: [_Obj(a=9)],
    'empty': lambda: [],
}
REENTER_OPTS = ['', 'size=2 orphan=0', 'prefix=p', 'no_push_item',
                'size=1 start=2 orphan=0', 'reverse', 'sort=sequence-item']


def reentered_programs():
    """One compiled block tag active twice at a time: the body of a loop
    (with, let) renders the same template again with other data, at its
    first or its last element."""
    for opts in REENTER_OPTS:
        for outer in sorted(REENTER_SEQS):
            for inner in sorted(REENTER_SEQS):
                if 'sort' in opts and ('obj' in outer + inner or
                                       'pairs' in outer + inner):
                    continue
                for at in (1, 2):
                    yield dict(reentered=True, opts=opts, outer=outer,
                               inner=inner, at=at)


def check_reentered(case):
    from DocumentTemplate._DocumentTemplate import TemplateDict
    from DocumentTemplate import HTML
    src = ('<dtml-with oa><dtml-let la=va><dtml-in seq %s><dtml-var hook>'
           '[<dtml-var sequence-index>]<dtml-else>none</dtml-in></dtml-let>'
           '</dtml-with>' % case['opts'])
    key = ('reentered', src)
    t = _TCACHE.get(key)
    if t is None:
        t = _TCACHE[key] = HTML(src)
    state = dict(n=0, busy=False)

    def hook():
        state['n'] += 1
        if state['n'] == case['at'] and not state['busy']:
            state['busy'] = True
            try:
                t(seq=REENTER_SEQS[case['inner']](), hook='', va='i',
                  oa=_Obj(x=1))
            except Exception:
                pass
            finally:
                state['busy'] = False
        return ''
    ns = dict(seq=REENTER_SEQS[case['outer']](), hook=hook, va='⟦A⟧', vn=7,
              oa=_Obj(x=2))
    md = TemplateDict()
    md._push(ns)
    md.guarded_getattr = None
    md.guarded_getitem = None
    md.level = 0
    before = (tuple(id(x) for x in md._data), md.level)
    try:
        out = ('text', t(None, md))
    except Exception as e:
        out = ('raise', e)
    after = (tuple(id(x) for x in md._data), md.level)
    okind = out[0] if out[0] != 'raise' else 'raise:' + type(out[1]).__name__
    if after != before:
        return [('stack-after-call:reentered:entries%+d:level%+d' % (
            len(after[0]) - len(before[0]), after[1] - before[1]), case,
            '%r over %s, rendered again over %s from inside the body at hook '
            'call %d, ended (%s) with %d namespace entries, level %d; on '
            'entry %d, level %d' % (src, case['outer'], case['inner'],
                                    case['at'], okind, len(after[0]),
                                    after[1], len(before[0]), before[1]))], \
            okind
    try:
        again = HTML('<dtml-var va>|<dtml-var vn>')(None, md)
    except Exception as e:
        again = repr(e)
    if again != '⟦A⟧|7':
        return [('namespace-unusable-after-catch:reentered', case,
                 '%r then gives %r' % (src, again))], okind
    return [], okind


def strategy():
    from hypothesis import strategies as st
    return st.fixed_dictionaries(dict(
        ast=gen.template(CFG), syntax=st.sampled_from(['dtml', 'ssi',
                                                       'epfs']),
        level=st.integers(0, 3), expand_all=st.booleans()))


def plan(tier, seed):
    n = 40 if tier == "quick" else 800
    return [dict(seed=seed * 1000 + i, n=n) for i in range(16)] + \
        [dict(enum=True, part=i, parts=8) for i in range(8)] + \
        [dict(recursive=True, part=i, parts=4, deltas=[300, 302, 303, 305]
              if tier == 'quick' else list(range(300, 308)))
         for i in range(4)] + \
        [dict(reentered=True)]


def run_shard(shard):
    acc = Acc(ID, sample_every=997)
    if shard.get('reentered'):
        for case in reentered_programs():
            fails, okind = check_reentered(case)
            acc.case(case, True, klass=['reentered', 'reentered-ends:' +
                                        okind],
                     distinct_by_construction=True)
            for b, c, msg in fails:
                acc.fail(b, c, msg)
        return acc.result()
    if shard.get('recursive'):
        for k, case in enumerate(recursive_programs(shard['deltas'])):
            if k % shard['parts'] != shard['part']:
                continue
            fails, okind = check_recursive(case)
            acc.case(case, True, klass=['recursive', 'recursive-ends:' +
                                        okind],
                     distinct_by_construction=True)
            for b, c, msg in fails:
                acc.fail(b, c, msg)
        return acc.result()
    if shard.get('enum'):
        import itertools
        for k, case in enumerate(itertools.chain(
                enumerated_programs(), enumerated_tree_programs())):
            if k % shard['parts'] != shard['part']:
                continue
            for b, c, msg in check_program(case, acc):
                acc.fail(b, c, msg)
        return acc.result()
    strat = strategy()

    def one(case):
        for b, c, msg in check_program(case, acc):
            acc.fail(b, c, msg)
    hyp_run(strat, one, shard['n'], shard['seed'])

    def bucket_of(c):
        f = check_program(c)
        return f[0][0] if f else None
    shrink_failures(acc, strat, bucket_of, shard['seed'], limit=2)
    return acc.result()


def replay(case):
    if case.get('reentered'):
        f, _ = check_reentered(case)
        return (f[0][0], f[0][2]) if f else None
    if case.get('recursive'):
        f, _ = check_recursive(case)
        return (f[0][0], f[0][2]) if f else None
    f = check_program({k: v for k, v in case.items() if k != 'fault'})
    return (f[0][0], f[0][2]) if f else None
