"""C09 - if/elif/else/unless render the first true branch, lazily, evaluating
once.  Oracle: reference interpreter (output + ordered call log)."""
import itertools

from vf import dtml, gen, harness, model
from vf.engine import Acc, hyp_run, shrink_failures

ID = 'C09'
EXHAUSTIVE = ('quick', 'thorough')
RULE = ('exhaustive: chains of 1..5 conditions (if / elif.. / optional else; '
        'unless; call), each condition one of {plain true, plain false, '
        'recorder callable returning true, recorder returning false, '
        'undefined name, expression calling a recorder (true / false)}, '
        'every combination; every body re-references its condition name '
        '(directly, in a nested if, and inside a nested with / in) and calls '
        'a body recorder; thorough adds all chains with a second shape of '
        'bodies.  Plus Hypothesis-generated nestings.  Non-trivial: >= 2 '
        'conditions with >= 1 callable, or a body re-referencing a callable '
        'condition.  Enumerated chains are distinct by construction.')
RULE += (
         'Also: the chosen body re-references the condition from '
         'Python expressions. ')
RULE += ('Round 8: dtml-unless bodies (both spellings) re-referencing the condition name at several depths. ')
RULE += ('Round 9: unless is the complement of if for expressions with weakly binding operators. ')
ASSUMPTIONS = ['reference interpreter vf/model.py is trusted',
               'dtml-call of an undefined name is not generated (the '
               'statement does not say what it does)']

KINDS = ['T', 'F', 'RT', 'RF', 'U', 'ET', 'EF', 'HX']
CFG = gen.Config(kinds=['text', 'var', 'call', 'if', 'if', 'unless', 'in',
                        'with', 'let'], max_depth=3, max_items=3,
                 literals=False, eol=False)


def T(s):
    return dict(k='text', s=s)


def V(n):
    return dict(k='var', ref=dict(r='name', n=n), opts=[])


def cond_ref(i, kind):
    if kind in ('ET', 'EF'):
        return dict(r='expr', e=dict(e='callname', n='e%d' % i))
    return dict(r='name', n='c%d' % i)


def earlier_refs(kinds, upto):
    """References to the (false) named conditions evaluated before."""
    return [V('c%d' % j) for j in range(upto) if kinds[j] in ('F', 'RF')]


def body_for(i, kind, shape, kinds=()):
    """Body of branch i: shows that it was rendered, re-references the
    condition name at several nesting depths (and the names of the earlier,
    false, conditions), calls a recorder."""
    b = [T('B%d[' % i)] + earlier_refs(kinds, i)
    name = 'c%d' % i
    if kind in ('T', 'RT'):
        # ... also from expressions, which see the value, not the object
        b.append(dict(k='var', opts=[], ref=dict(r='expr', e=dict(
            e='cat', a=dict(e='name', n=name), b=dict(e='lit', v='+')))))
        b.append(dict(k='if', conds=[dict(r='expr', e=dict(
            e='eq', a=dict(e='name', n=name),
            b=dict(e='lit', v=('yes%d' if kind == 'T' else 'Y%d') % i)))],
            bodies=[[T('=')]], **{'else': [T('#')]}))
    if kind in ('T', 'RT', 'HX'):
        b.append(V(name))
        inner = [T('n('), V(name), T(')')]
        b.append(dict(k='if', conds=[dict(r='name', n=name)],
                      bodies=[inner], **{'else': [T('!')]}))
        if shape == 1:
            b.append(dict(k='with', ref=dict(r='name', n='oa'), mapping=False,
                          only=False, body=[V(name), dict(
                              k='in', ref=dict(r='name', n='ss'), opts=[],
                              body=[V(name)], **{'else': None})]))
        else:
            b.append(dict(k='let', binds=[['la', dict(r='name', n=name)]] + (
                [['lb', dict(r='expr', e=dict(e='name', n=name))]]
                if kind != 'HX' else []),
                          body=[V('la')] + ([V('lb')] if kind != 'HX' else [])
                          + [dict(k='unless', ref=dict(
                              r='name', n=name), body=[T('never')])]))
    b.append(V('b%d' % i))
    b.append(T(']'))
    return b


def chain_case(kinds, has_else, shape=0, form='if'):
    n = len(kinds)
    ns = dict(oa=dict(t='obj', attrs=dict(xo='o')),
              ss=dict(t='list', items=['s', 't']))
    for i, kd in enumerate(kinds):
        ns['b%d' % i] = dict(t='rec', id='b%d' % i, ret='r%d' % i)
        if kd == 'T':
            ns['c%d' % i] = 'yes%d' % i
        elif kd == 'F':
            ns['c%d' % i] = ''
        elif kd == 'HX':
            # an HTTP exception object (e.g. what error_value holds): a true
            # value that is callable but must not be called
            ns['c%d' % i] = dict(t='httpexc', n=['NotFound', 'Unauthorized',
                                                 'BadRequest'][i % 3],
                                 msg='hx%d' % i)
        elif kd == 'RT':
            ns['c%d' % i] = dict(t='rec', id='c%d' % i, ret='Y%d' % i)
        elif kd == 'RF':
            ns['c%d' % i] = dict(t='rec', id='c%d' % i, ret=0)
        elif kd == 'ET':
            ns['e%d' % i] = dict(t='rec', id='e%d' % i, ret=1)
        elif kd == 'EF':
            ns['e%d' % i] = dict(t='rec', id='e%d' % i, ret=None)
    ns['belse'] = dict(t='rec', id='belse', ret='re')
    if form == 'if':
        ast = [T('<'), dict(
            k='if', conds=[cond_ref(i, kd) for i, kd in enumerate(kinds)],
            bodies=[body_for(i, kd, shape, kinds)
                    for i, kd in enumerate(kinds)],
            **{'else': [T('ELSE[')] + earlier_refs(kinds, n) +
               [V('belse'), T(']')] if has_else
               else None}), T('>')]
    elif form in ('unless', 'unless-else'):
        body = [T('U['), V('b0')]
        if kinds[0] in ('F', 'RF'):
            # the body re-references the (false) condition name, at several
            # depths: the value is reused, not recomputed
            body += [V('c0'), dict(k='if', conds=[dict(r='name', n='c0')],
                                   bodies=[[T('never')]],
                                   **{'else': [T('!'), V('c0')]}),
                     dict(k='let', binds=[['la', dict(r='name', n='c0')]],
                          body=[V('la'), dict(k='unless', ref=dict(
                              r='name', n='c0'), body=[T('u2'), V('c0')])]),
                     dict(k='with', ref=dict(r='name', n='oa'),
                          mapping=False, only=False, body=[V('c0'), dict(
                              k='in', ref=dict(r='name', n='ss'), opts=[],
                              body=[V('c0')], **{'else': None})])]
        ast = [T('<'), dict(k='unless', ref=cond_ref(0, kinds[0]),
                            as_else=form == 'unless-else',
                            body=body + [T(']')]), T('>')]
    else:
        ast = [T('<'), dict(k='call', ref=cond_ref(0, kinds[0])), T('>')]
    return dict(ast=ast, ns=ns)


def late_cases():
    """A name of a client / with-object is undefined when first tested and
    is defined (by a callable that runs later in the same rendering) before
    it is tested again: 'not defined counts as false' is about the moment
    of the test."""
    ns = dict(
        oa=dict(t='obj', attrs=dict(xo='o')),
        setter=dict(t='rec', id='setter', ret=1, sets=['oa', 'late', 'L']),
        setter0=dict(t='rec', id='setter0', ret=0,
                     sets=['oa', 'late', 'L']),
        unsetter=dict(t='rec', id='unsetter', ret=1,
                      sets=['oa', 'xo', '']))

    def name(n):
        return dict(r='name', n=n)

    def iff(conds, bodies, els=None):
        return dict(k='if', conds=[name(c) for c in conds], bodies=bodies,
                    **{'else': els})
    probe = [iff(['late'], [[T('+')]], [T('-')]),
             dict(k='unless', ref=name('late'), body=[T('U')]),
             dict(k='var', ref=name('late'), opts=[['missing', '∅']])]
    bodies = {
        'elif-defines': [iff(['late', 'setter'], [[T('A')], [T('B[')] +
                                                   probe + [T(']')]],
                             [T('C')])],
        'elif-defines-false': [iff(['late', 'setter0', 'late'],
                                   [[T('A')], [T('B')], [T('D[')] + probe +
                                    [T(']')]], [T('C')] + probe)],
        'call-between': [iff(['late'], [[T('A')]], [T('N')]),
                         dict(k='call', ref=name('setter'))] + probe,
        'unless-then-define': [dict(k='unless', ref=name('late'),
                                    body=[T('U1'), dict(k='call', ref=name(
                                        'setter'))] + probe)] + probe,
        'five-names': [iff(['late', 'nope', 'setter0', 'late', 'xo'],
                           [[T('1')], [T('2')], [T('3')], [T('4')] + probe,
                            [T('5')] + probe], [T('E')])],
    }
    for fam, b in sorted(bodies.items()):
        for wrap in ('with', 'with-in', 'nested-with'):
            if wrap == 'with':
                ast = [dict(k='with', ref=name('oa'), mapping=False,
                            only=False, body=b)]
            elif wrap == 'with-in':
                ast = [dict(k='with', ref=name('oa'), mapping=False,
                            only=False, body=[dict(
                                k='in', ref=name('ss'), opts=[], body=b,
                                **{'else': None})])]
            else:
                ast = [dict(k='with', ref=name('oa'), mapping=False,
                            only=False, body=[dict(
                                k='let', binds=[['la', name('xo')]],
                                body=b)])]
            for sx in ('dtml', 'ssi', 'epfs'):
                yield dict(ast=[T('<')] + ast + [T('>')], ns=ns, syntax=sx,
                           family='late:%s:%s' % (fam, wrap))


def raising_cases():
    """A condition raises while it is evaluated; an enclosing try handles
    it; afterwards the same names are tested again (nothing of the failed
    conditional may be left behind)."""
    ns = dict(
        oa=dict(t='obj', attrs=dict(xo='o', late=0)),
        ss=dict(t='list', items=['s', 't']),
        c0=dict(t='rec', id='c0', ret=0), c1=dict(t='rec', id='c1', ret=1),
        cx=dict(t='rec', id='cx', ret=1, raises='VfB'),
        plain='p', VfB=dict(t='exc', n='VfB'))

    def name(n):
        return dict(r='name', n=n)

    def iff(conds, bodies, els=None):
        return dict(k='if', conds=[name(c) if isinstance(c, str) else c
                                   for c in conds], bodies=bodies,
                    **{'else': els})
    boom_expr = dict(r='expr', e=dict(e='callname', n='cx'))
    after = [iff(['c0'], [[T('T0')]], [T('F0')]),
             iff(['c1'], [[T('T1'), V('c1')]], [T('F1')]),
             dict(k='unless', ref=name('c0'), body=[T('U0')]),
             dict(k='call', ref=name('c1')),
             dict(k='var', ref=name('xo'), opts=[['missing', '∅']])]
    chains = {
        'second-raises': iff(['c0', 'cx', 'c1'], [[T('a')], [T('b')],
                                                  [T('c')]], [T('e')]),
        'first-raises': iff(['cx', 'c1'], [[T('a')], [T('b')]]),
        'after-true-name': iff(['c0', 'c1', 'cx'], [[T('a')], [T('b'), V(
            'cx')], [T('c')]]),
        'expr-raises': iff(['c1', 'c0'], [[dict(k='if', conds=[
            name('c0'), boom_expr], bodies=[[T('x')], [T('y')]],
            **{'else': None})], [T('b')]]),
        'unless-raises': dict(k='unless', ref=name('cx'), body=[T('u')]),
        'call-raises': dict(k='call', ref=name('cx')),
    }
    for fam, chain in sorted(chains.items()):
        for wrap in ('plain', 'with', 'in', 'let'):
            tr = dict(k='try', body=[T('('), chain, T(')')],
                      handlers=[dict(names=['VfA'], body=[T('E')] + after)],
                      **{'else': None, 'finally': None})
            inner = [tr, T('|')] + after
            if wrap == 'with':
                ast = [dict(k='with', ref=name('oa'), mapping=False,
                            only=False, body=inner)] + after
            elif wrap == 'in':
                ast = [dict(k='in', ref=name('ss'), opts=[], body=inner,
                            **{'else': None})] + after
            elif wrap == 'let':
                ast = [dict(k='let', binds=[['la', name('plain')]],
                            body=inner)] + after
            else:
                ast = inner
            for sx in ('dtml', 'ssi', 'epfs'):
                yield dict(ast=[T('<')] + ast + [T('>')], ns=ns, syntax=sx,
                           family='raising:%s:%s' % (fam, wrap))


BOOL_EXPRS = ['a or b', 'a and b', 'a if c else b', 'not a or b',
              'a or b and c', 'a and b or c', 'not a and not b', 'a == b or c',
              'a or not b', '(a or b) and c', 'a in (b, c) or a', 'a if b else '
              'not c', 'a or b or c', 'not (a and b)', 'a and (b or c)']


def bool_expr_cases():
    """unless renders its body exactly when if would not: expressions
    whose top-level operator binds weaker than 'not', every truth
    assignment, every spelling of the tag."""
    forms = {
        'dtml': '<dtml-unless "%s">U</dtml-unless>|<dtml-if "%s">I</dtml-if>',
        'dtml=': '<dtml-unless expr="%s">U</dtml-unless>|<dtml-if expr="%s">'
                 'I<dtml-else></dtml-if>',
        'ssi': '<!--#unless expr="%s"-->U<!--#/unless-->|<!--#if expr="%s"'
               '-->I<!--#endif-->',
        'epfs': '%%(unless expr="%s")[U%%(unless)]|%%(if expr="%s")[I%%(if)]',
        'else-form': '<dtml-if "%s"><dtml-else>U</dtml-if>|<dtml-if "%s">I'
                     '</dtml-if>',
    }
    for e in BOOL_EXPRS:
        for bits in itertools.product((0, 1), repeat=3):
            for fname in sorted(forms):
                yield dict(boolexpr=e, bits=list(bits), form=fname,
                           src=forms[fname] % (e, e))


def check_bool_expr(case):
    from DocumentTemplate import HTML, String
    a, b, c = case['bits']
    truth = bool(eval(case['boolexpr'], {}, dict(a=a, b=b, c=c)))
    cls = String if case['form'] == 'epfs' else HTML
    try:
        out = cls(case['src'])(a=a, b=b, c=c)
    except Exception as e:
        out = 'raised %r' % (e,)
    exp = '|I' if truth else 'U|'
    if out != exp:
        return ('unless-complement', '%r with a=%d b=%d c=%d rendered %r, '
                'expected %r' % (case['src'], a, b, c, out, exp))
    return None


def run(ast, ns, syntax='dtml', style=None):
    src, toks = dtml.print_ast(ast, syntax, dtml.Style(style) if style
                               else None)
    try:
        out_m, w_m, _ = harness.run_model(ast, ns)
    except model.Unspecified:
        return 'unspecified'
    # the compiled template has been rendered before with other values
    out_i, w_i, _ = harness.run_impl_twice(src, syntax, ns)
    no_m, no_i = harness.norm_outcome(out_m), harness.norm_outcome(out_i)
    if no_m != no_i:
        kind = 'outcome'
        if no_m[0] == no_i[0] == 'text':
            kind = 'wrong-branch-or-text'
        return kind, 'source %r\n expected %r\n got      %r' % (src, no_m,
                                                                no_i)
    if w_m.log != w_i.log:
        a, b = w_m.log, w_i.log
        kind = 'calllog'
        if len(b) > len(a):
            kind = 'extra-evaluation'
        elif len(b) < len(a):
            kind = 'missing-evaluation'
        return kind, 'source %r\n expected calls %r\n actual calls   %r' % (
            src, a, b)
    return None


def plan(tier, seed):
    shards = []
    for n in range(1, 6):
        for first in KINDS:
            shards.append(dict(kind='chains', n=n, first=first))
    shards.append(dict(kind='single'))
    shards.append(dict(kind='late'))
    m = 8
    per = 250 if tier == 'quick' else 5000
    for i in range(m):
        shards.append(dict(kind='random', seed=seed * 1000 + i, n=per))
    return shards


def strategy():
    from hypothesis import strategies as st
    return st.fixed_dictionaries(dict(
        ast=gen.template(CFG), style=gen.style(),
        syntax=st.sampled_from(['dtml', 'ssi', 'epfs'])))


def run_shard(shard):
    acc = Acc(ID, sample_every=211)
    kind = shard['kind']
    if kind == 'chains':
        n = shard['n']
        for rest in itertools.product(KINDS, repeat=n - 1):
            kinds = [shard['first']] + list(rest)
            for has_else in (False, True):
                shapes = (0, 1)
                for shape in shapes:
                    if shape == 1 and n > 3:
                        continue
                    c = chain_case(kinds, has_else, shape)
                    callables = sum(1 for k in kinds if k in ('RT', 'RF',
                                                              'ET', 'EF'))
                    nt = (n >= 2 and callables >= 1) or 'RT' in kinds
                    sx = ('dtml', 'ssi', 'epfs')[(n + shape +
                                                  len(rest)) % 3]
                    bad = run(c['ast'], c['ns'], sx)
                    acc.case(['chain', kinds, has_else, shape, sx], nt,
                             klass='chain-%d' % n,
                             distinct_by_construction=True,
                             sample=dict(kinds=kinds, has_else=has_else,
                                         source=dtml.print_ast(c['ast'],
                                                               sx)[0]))
                    if bad and bad != 'unspecified':
                        acc.fail(bad[0], ['chain', kinds, has_else, shape,
                                          sx], bad[1])
    elif kind == 'single':
        for case in bool_expr_cases():
            bad = check_bool_expr(case)
            acc.case(case, True, klass='unless-vs-if-expression',
                     distinct_by_construction=True)
            if bad:
                acc.fail(bad[0], case, bad[1])
        for kd in KINDS:
            for form in ('unless', 'unless-else', 'call'):
                if form == 'call' and kd == 'U':
                    continue
                if form == 'unless-else' and kd in ('ET', 'EF'):
                    continue     # the old else block takes a name only
                for sx in ('dtml', 'ssi', 'epfs'):
                    c = chain_case([kd], False, 0, form)
                    bad = run(c['ast'], c['ns'], sx)
                    acc.case([form, kd, sx], kd in ('RT', 'RF', 'ET', 'EF'),
                             klass=form, distinct_by_construction=True)
                    if bad and bad != 'unspecified':
                        acc.fail(form + ':' + bad[0], [form, kd, sx], bad[1])
    elif kind == 'late':
        import itertools as _it
        for c in _it.chain(late_cases(), raising_cases()):
            bad = run(c['ast'], c['ns'], c['syntax'])
            case = dict(late=c['family'], syntax=c['syntax'])
            acc.case(case, True, klass='late-definition',
                     distinct_by_construction=True)
            if bad and bad != 'unspecified':
                acc.fail('late:' + bad[0], case, bad[1])
    elif kind == 'random':
        ns = gen.base_ns()
        strat = strategy()

        def one(case):
            bad = run(case['ast'], ns, case['syntax'], case['style'])
            nconds = sum(len(n.get('conds', ())) + (n['k'] == 'unless')
                         for n in dtml.walk(case['ast']))
            acc.case(case, nconds >= 2, klass='random' if bad !=
                     'unspecified' else 'random-unspecified')
            if bad and bad != 'unspecified':
                acc.fail('random:' + bad[0], case, bad[1])
        hyp_run(strat, one, shard['n'], shard['seed'])

        def bucket_of(c):
            b = run(c['ast'], ns, c['syntax'], c['style'])
            return 'random:' + b[0] if b and b != 'unspecified' else None
        shrink_failures(acc, strat, bucket_of, shard['seed'])
    return acc.result()


def replay(case):
    if isinstance(case, dict) and 'boolexpr' in case:
        return check_bool_expr(case)
    if isinstance(case, dict) and 'late' in case:
        import itertools as _it
        for c in _it.chain(late_cases(), raising_cases()):
            if c['family'] == case['late'] and c['syntax'] == case['syntax']:
                bad = run(c['ast'], c['ns'], c['syntax'])
                return ('late:' + bad[0], bad[1]) if bad and \
                    bad != 'unspecified' else None
        return None
    if isinstance(case, list) and case[0] == 'chain':
        c = chain_case(case[1], case[2], case[3])
        bad = run(c['ast'], c['ns'], case[4])
    elif isinstance(case, list):
        c = chain_case([case[1]], False, 0, case[0])
        bad = run(c['ast'], c['ns'], case[2])
        if bad and bad != 'unspecified':
            bad = (case[0] + ':' + bad[0], bad[1])
    else:
        bad = run(case['ast'], gen.base_ns(), case['syntax'], case['style'])
        if bad and bad != 'unspecified':
            bad = ('random:' + bad[0], bad[1])
    if bad and bad != 'unspecified':
        return bad
    return None
