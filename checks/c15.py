"""C15 - dtml-var options apply a fixed, documented value pipeline.

Oracles: (1) metamorphic: any written order of the options gives the same
output; (2) independent pipeline model whose modifier order is *inferred*
from pairwise renderings and must be one acyclic total order; (3) laws for
the single modifiers, truncation and the url / sql round trips."""
import html
import itertools
import re
import urllib.parse

from vf.engine import Acc, hyp_run, shrink_failures

ID = 'C15'
RULE = ('(a) exhaustive: all 4096 modifier subsets on 3 values, predicted by '
        'folding independent single-modifier functions in the order inferred '
        'from all 66 pairs; (b) Hypothesis: values (str incl. non-ASCII, '
        'blanks, digits, %XX, +, _, quotes, NUL, Ctrl-Z, CR/LF; int, float, '
        'None, "", [], 0, objects with methods, undefined) x random option '
        'sets (modifiers, fmt= method / special / %-format, EPFS C-format, '
        'null=, missing=, size 0..len+2, etc) written in two random orders; '
        'round trips url_unquote(url_quote(s)), sql_quote law; bytes with '
        'url_* / sql_quote / html_quote.  Non-trivial: >= 2 modifiers, or '
        'truncation actually cuts, or null / missing decides.  Distinct = '
        'case hash (subsets distinct by construction).')
RULE += (
         'Also: upper-case and further C-style conversions (X, E, G, '
         'F, o, i, c). ')
RULE += ('Round 8: named formats comma-numeric / url-unquote(-plus) / url-quote-plus modelled; equal values of different type one after the other. ')
RULE += ('Round 9: characters whose case mappings do not round-trip. ')
RULE += ('Round 10: url quoting round trip in templates of another encoding. ')
ASSUMPTIONS = [
    'the statement does not say which fixed order the modifiers have: it is '
    'read off pairwise renderings and only its existence, acyclicity and '
    'consistency with every larger subset are asserted',
    'thousands_commas is only specified on [-]digits[.digits]; on other '
    'text its single-modifier rendering is read back and used as a function',
]

MODS = ['html_quote', 'url_quote', 'url_quote_plus', 'url_unquote',
        'url_unquote_plus', 'newline_to_br', 'lower', 'upper', 'capitalize',
        'spacify', 'thousands_commas', 'sql_quote']
NUMERIC = re.compile(r'-?\d+(\.\d+)?\Z')


def thou_numeric(v):
    neg = v.startswith('-')
    body = v[1:] if neg else v
    whole, dot, frac = body.partition('.')
    g = ''
    while len(whole) > 3:
        g = ',' + whole[-3:] + g
        whole = whole[:-3]
    return ('-' if neg else '') + whole + g + dot + frac


_T = {}


def tmpl(kind, src):
    from DocumentTemplate import HTML, String
    t = _T.get((kind, src))
    if t is None:
        t = (String if kind == 'S' else HTML)(src)
        if len(_T) < 20000:
            _T[(kind, src)] = t
    return t


def render_opts(opts, ns, cfmt=None):
    """opts: list of written attribute strings."""
    if cfmt:
        src = '%%(x %s)%s' % (' '.join(opts), cfmt) if opts else \
            '%%(x)%s' % cfmt
        return tmpl('S', src)(**ns)
    src = '<dtml-var x %s>' % ' '.join(opts) if opts else '<dtml-var x>'
    return tmpl('H', src)(**ns)


def thou_readback(s):
    if NUMERIC.match(s):
        return thou_numeric(s)
    return render_opts(['thousands_commas'], dict(x=s))


F = {
    'html_quote': lambda s: html.escape(s, True),
    'url_quote': urllib.parse.quote,
    'url_quote_plus': urllib.parse.quote_plus,
    'url_unquote': urllib.parse.unquote,
    'url_unquote_plus': urllib.parse.unquote_plus,
    'newline_to_br': lambda s: s.replace('\r', '').replace('\n', '<br />\n'),
    'lower': str.lower, 'upper': str.upper, 'capitalize': str.capitalize,
    'spacify': lambda s: s.replace('_', ' '),
    'thousands_commas': thou_readback,
    'sql_quote': lambda s: s.replace('\0', '').replace('\x1a', '').replace(
        '\r', '').replace("'", "''"),
}

PROBES = ["aB_c d'e\n<f>&%41+%2541 1234567.5", "Hello_World %3C%2B 9999",
          "x\r\ny'z\x00q\x1a 12345", "1234567", "-1234567.891", "a+b c%20d",
          "%27_%0A%5F é", "<1000000>'_' %26amp;"]

# characters whose case mappings do not round-trip (or change the length)
CASEFUL = "stra\xdfe_\u01c6 300\u212a \u0149\ufb01x \u0130i'\u03c2 \u1e9e%41"
_ORDER = {}


def infer_order():
    """Pairwise order of the modifiers as the implementation applies them;
    -> (order list or None, problems)."""
    if 'order' in _ORDER:
        return _ORDER['order'], _ORDER['problems']
    problems = []
    before = {}
    for a, b in itertools.combinations(MODS, 2):
        verdicts = set()
        for v in PROBES:
            ab = F[b](F[a](v))
            ba = F[a](F[b](v))
            if ab == ba:
                continue
            got = render_opts([a, b], dict(x=v))
            got2 = render_opts([b, a], dict(x=v))
            if got != got2:
                problems.append(('order-dependent:%s+%s' % (a, b),
                                 '%r: written %s %s -> %r, written %s %s -> '
                                 '%r' % (v, a, b, got, b, a, got2)))
            if got == ab:
                verdicts.add((a, b))
            elif got == ba:
                verdicts.add((b, a))
            else:
                problems.append(('pair-neither:%s+%s' % (a, b),
                                 '%r rendered %r; %s then %s gives %r, the '
                                 'other way %r' % (v, got, a, b, ab, ba)))
        if len(verdicts) > 1:
            problems.append(('pair-inconsistent:%s+%s' % (a, b),
                             repr(verdicts)))
        if len(verdicts) == 1:
            before[(a, b)] = list(verdicts)[0]
    # topological order of the decided pairs
    edges = set(before.values())
    order, left = [], list(MODS)
    while left:
        free = [m for m in left
                if not any((o, m) in edges for o in left if o != m)]
        if not free:
            problems.append(('order-cyclic', repr(sorted(edges))))
            order = None
            break
        order.append(free[0])
        left.remove(free[0])
    _ORDER['order'], _ORDER['problems'] = order, problems
    return order, problems


def fold(mods, s, order):
    for m in order:
        if m in mods:
            s = F[m](s)
    return s


def truncate(s, size, etc):
    if len(s) <= size:
        return s
    head = s[:size]
    cut = head.rfind(' ')
    if cut > size / 2:
        head = head[:cut + 1]
    return head + etc


class Thing:
    """Object with methods (fmt=name) and a str form."""

    def __init__(self, text):
        self.text = text

    def __str__(self):
        return self.text

    def __repr__(self):
        return 'Thing(%r)' % self.text

    def shout(self):
        return self.text.upper() + '!'

    def number(self):
        return 1234567


class RaisesKeyError:
    """A defined value whose evaluation fails with KeyError."""

    def __call__(self):
        raise KeyError('inner-name')


def make_value(spec):
    t = spec[0]
    if t == 'str':
        return spec[1]
    if t == 'int':
        return spec[1]
    if t == 'float':
        return spec[1]
    if t == 'none':
        return None
    if t == 'list':
        return list(spec[1])
    if t == 'tuple':
        return tuple(spec[1])
    if t == 'thing':
        return Thing(spec[1])
    if t == 'raises-keyerror':
        return RaisesKeyError()
    if t == 'tmpl-undef':
        from DocumentTemplate import HTML
        return HTML('t<dtml-var inner_undefined_name>')
    raise ValueError(t)


SPECIAL = {
    'whole-dollars': lambda v: _try(lambda: '$%d' % v),
    'dollars-and-cents': lambda v: _try(lambda: '$%.2f' % v),
    'collection-length': lambda v: str(len(v)),
    'html-quote': lambda v: html.escape(str(v), True),
    'url-quote': lambda v: urllib.parse.quote(str(v)),
    'sql-quote': lambda v: F['sql_quote'](v),
    'multi-line': lambda v: F['newline_to_br'](str(v)),
    'comma-numeric': lambda v: F['thousands_commas'](str(v)),
    'url-quote-plus': lambda v: urllib.parse.quote_plus(str(v)),
    'url-unquote': lambda v: urllib.parse.unquote(str(v)),
    'url-unquote-plus': lambda v: urllib.parse.unquote_plus(str(v)),
}

# values that are equal (and hash alike) but are different values with
# different texts: the pipeline is a function of the value shown, whatever
# equal value went through the same format before
TWINS = [(1234567, 1234567.0), (2500.0, 2500), (0, -0.0), (1, True),
         (1000000, 1e6), (0.0, False), (-1234567, -1234567.0), (3, 3.0)]
TWIN_OPTS = [{'fmt': 'comma-numeric'}, {'thousands_commas': None}, {},
             {'fmt': 'whole-dollars'}, {'fmt': 'dollars-and-cents'},
             {'fmt': '%s'}, {'fmt': 'url-quote'}, {'fmt': 'html-quote'},
             {'html_quote': None}, {'fmt': 'sql-quote'}, {'size': '20'},
             {'fmt': 'comma-numeric', 'size': '9', 'etc': '~'},
             {'fmt': 'url-quote-plus'}, {'sql_quote': None},
             {'url_quote': None}, {'null': 'NULL'},
             {'fmt': 'collection-length', 'null': ''}, {'spacify': None}]


def twin_cases():
    for opts in TWIN_OPTS:
        for a, b in TWINS:
            for first, second in ((a, b), (b, a)):
                yield dict(twin=True, opts=opts,
                           values=[[type(first).__name__, first],
                                   [type(second).__name__, second]])


def check_twins(case):
    order, _ = infer_order()
    outs = []
    for tv in case['values']:
        v = {'int': int, 'float': float, 'bool': lambda x: bool(x)}[
            tv[0]](tv[1])
        sub = dict(value=['int', v], opts=case['opts'], perm1=[], perm2=[],
                   cfmt=None)
        try:
            got = ('ok', render_opts(written(case['opts'], None), dict(x=v)))
        except Exception as e:
            got = ('exc', type(e).__name__)
        try:
            exp = expected(sub, order)
        except Exception:
            continue
        outs.append((v, got, exp))
    for v, got, exp in outs:
        if got != ('ok', exp):
            return ('pipeline:depends-on-earlier-equal-value',
                    '%r rendered one after the other with %r: x=%r (%s) '
                    'gave %r, expected %r' % (
                        [t[1] for t in case['values']], case['opts'], v,
                        type(v).__name__, got, exp))
    return None


def _try(f):
    try:
        return f()
    except Exception:
        return ''


class Unspec(Exception):
    pass


def expected(case, order):
    """Pipeline model -> expected text; raises Unspec where the statement
    is silent."""
    o = case['opts']
    if case['value'][0] == 'undefined':
        if 'missing' in o:
            return o['missing']
        return KeyError
    if case['value'][0] in ('raises-keyerror', 'tmpl-undef'):
        # the name is defined: missing= does not apply, the failure of its
        # evaluation is the caller's to see
        return KeyError
    v = make_value(case['value'])
    if 'null' in o and (v is None or (not v and v != 0)):
        return o['null']
    if 'fmt' in o:
        f = o['fmt']
        if isinstance(v, (str, int, float, Thing)) and hasattr(v, f):
            v = getattr(v, f)()
        elif f in SPECIAL:
            try:
                v = SPECIAL[f](v)
            except Exception:
                raise Unspec('special format on an unsuitable value')
        elif '%' in f:
            try:
                v = f % v
            except Exception:
                raise Unspec('%-format on an unsuitable value')
        else:
            raise Unspec('unknown format name')
    cf = case.get('cfmt')
    if cf and cf != 's':
        try:
            s = ('%' + cf) % (v,)
        except Exception:
            raise Unspec('C format on an unsuitable value')
    else:
        s = str(v)
    mods = [m for m in MODS if m in o]
    s = fold(mods, s, order)
    if 'size' in o:
        s = truncate(s, int(o['size']), o.get('etc', '...'))
    return s


def written(opts, perm):
    names = list(opts)
    names = [names[i % len(names)] for i in perm][:len(names)] if False \
        else names
    out = []
    for k in names:
        v = opts[k]
        if v is None:
            out.append(k)
        else:
            out.append('%s="%s"' % (k, v))
    return out


def permute(items, picks):
    items = list(items)
    out = []
    for p in picks:
        if not items:
            break
        out.append(items.pop(p % len(items)))
    return out + items


def check(case):
    order, problems = infer_order()
    if order is None:
        return problems[0]
    o = case['opts']
    ns = {} if case['value'][0] == 'undefined' else \
        dict(x=make_value(case['value']))
    attrs = written(o, None)
    a1 = permute(attrs, case['perm1'])
    a2 = permute(attrs, case['perm2'])
    outs = []
    for a in (a1, a2):
        try:
            outs.append(('ok', render_opts(a, dict(ns), case.get('cfmt'))))
        except Exception as e:
            outs.append(('exc', type(e).__name__))
    if outs[0] != outs[1]:
        return ('order-dependent', 'x=%r: written %r -> %r; written %r -> %r'
                % (case['value'], a1, outs[0], a2, outs[1]))
    try:
        exp = expected(case, order)
    except Unspec:
        return 'unspecified'
    except Exception:
        return 'unspecified'
    if exp is KeyError:
        if outs[0] != ('exc', 'KeyError'):
            return ('pipeline:missing', 'undefined x with %r -> %r' % (
                a1, outs[0]))
        return None
    if outs[0][0] != 'ok':
        return ('pipeline:exception:%s' % outs[0][1],
                'x=%r %r raised %s, expected %r' % (case['value'], a1,
                                                    outs[0][1], exp))
    got = outs[0][1]
    if got != exp:
        stage = 'modifiers'
        if 'size' in o and len(got) != len(exp):
            stage = 'truncation'
        elif 'null' in o or 'missing' in o:
            stage = 'null-missing'
        elif 'fmt' in o or case.get('cfmt'):
            stage = 'format'
        return ('pipeline:%s' % stage, 'x=%r %r cfmt=%r rendered %r, '
                'expected %r' % (case['value'], a1, case.get('cfmt'), got,
                                 exp))
    return None


def check_laws(s):
    """Round trips and the sql_quote law on one string."""
    bad = []
    for q, u in (('url_quote', 'url_unquote'),
                 ('url_quote_plus', 'url_unquote_plus')):
        r1 = render_opts([q], dict(x=s))
        if r1 != F[q](s):
            bad.append(('law:%s' % q, '%r -> %r expected %r' % (s, r1,
                                                                F[q](s))))
        r2 = render_opts([u], dict(x=r1))
        if r2 != s:
            bad.append(('law:%s-roundtrip' % u, '%s(%s(%r)) == %r' % (
                u, q, s, r2)))
    # ... in templates created with another encoding as well: what one
    # tag quotes, another tag of the same template unquotes
    from DocumentTemplate import HTML
    for enc in ('latin-1', 'cp1252', 'utf-16'):
        for q, u in (('url_quote', 'url_unquote'),
                     ('url_quote_plus', 'url_unquote_plus')):
            key = ('enc', enc, q)
            t = _T.get(key)
            if t is None:
                t = _T[key] = (
                    HTML('<dtml-var x %s>' % q, encoding=enc),
                    HTML('<dtml-var x %s>' % u, encoding=enc),
                    HTML('<dtml-var x fmt=%s %s>' % (q.replace('_', '-'), u),
                         encoding=enc))
            try:
                r2 = t[1](x=t[0](x=s))
                r3 = t[2](x=s)
            except Exception as e:
                r2 = r3 = repr(e)
            if r2 != s or r3 != s:
                bad.append(('law:%s-roundtrip:encoded-template' % u,
                            'template encoding %s: %s(%s(%r)) == %r; in one '
                            'tag %r' % (enc, u, q, s, r2, r3)))
    r = render_opts(['sql_quote'], dict(x=s))
    if any(c in r for c in '\0\x1a\r') or re.sub("''", '', r).count("'") or \
            r != F['sql_quote'](s):
        bad.append(('law:sql_quote', '%r -> %r' % (s, r)))
    for m in ('lower', 'upper', 'capitalize', 'spacify'):
        r = render_opts([m], dict(x=s))
        if r != F[m](s):
            bad.append(('law:%s' % m, '%r -> %r' % (s, r)))
    if NUMERIC.match(s):
        # digits of the integer part grouped in threes, the rest untouched
        exp = thou_numeric(s)
        for how, r in (('modifier', render_opts(['thousands_commas'],
                                                dict(x=s))),
                       ('epfs', render_opts(['thousands_commas'], dict(x=s),
                                            's'))):
            if r != exp or r.replace(',', '') != s:
                bad.append(('law:thousands_commas', '%s: %r -> %r expected '
                            '%r' % (how, s, r, exp)))
    return bad


def check_bytes(s):
    bad = []
    b = s.encode('utf-8')
    for m in ('url_quote', 'url_quote_plus', 'url_unquote',
              'url_unquote_plus', 'sql_quote', 'html_quote'):
        try:
            r = render_opts([m], dict(x=b))
        except UnicodeError:
            continue
        except Exception as e:
            bad.append(('bytes:%s:exception' % m, '%r: %r' % (b, e)))
            continue
        if isinstance(r, bytes):
            try:
                r = r.decode('utf-8')
            except UnicodeError:
                continue
        exp = F[m](s)
        if m in ('url_unquote', 'url_unquote_plus'):
            # unquoting may yield bytes that are not valid text
            try:
                exp.encode('utf-8')
            except UnicodeError:
                continue
        if r != exp:
            bad.append(('bytes:%s' % m, '%r -> %r expected %r' % (b, r, exp)))
    return bad


def strategy():
    from hypothesis import strategies as st
    frag = st.sampled_from(['a', 'B', '_', ' ', '  ', "'", "''", '\n', '\r\n',
                            '\0', '\x1a', '%41', '%2541', '%3C', '+', '<', '&',
                            '"x"', '1', '1234', '5678901', '.5', 'é', 'ß',
                            '\u212a', '\ufb01', '\u0130', '\u01c6', '\u0149',
                            '中', 'word ', 'ab_cd', '%', '%%', ';'])
    text = st.lists(frag, max_size=10).map(''.join)
    digits = st.text('0123456789', min_size=1, max_size=12)
    numeric = st.builds(
        lambda neg, w, f: neg + w + ('.' + f if f else ''),
        st.sampled_from(['', '', '-']), digits,
        st.one_of(st.just(''), st.text('0123456789', min_size=1,
                                       max_size=9)))
    value = st.one_of(
        text.map(lambda s: ['str', s]), text.map(lambda s: ['str', s]),
        numeric.map(lambda s: ['str', s]),
        st.floats(-1e9, 1e9, allow_nan=False).map(lambda f: ['float', f]),
        st.lists(st.one_of(st.integers(-5, 5), st.sampled_from(
            ['a', 'b c'])), max_size=3).map(lambda l: ['tuple', l]),
        st.integers(-10 ** 9, 10 ** 9).map(lambda i: ['int', i]),
        st.floats(-1e6, 1e6, allow_nan=False).map(
            lambda f: ['float', round(f, 3)]),
        st.just(['none']), st.just(['str', '']), st.just(['list', []]),
        st.just(['raises-keyerror']), st.just(['tmpl-undef']),
        st.just(['int', 0]), st.just(['undefined']),
        text.map(lambda s: ['thing', s]), st.just(['list', [1, 2]]))
    mods = st.lists(st.sampled_from(MODS), max_size=5, unique=True)
    extra = st.fixed_dictionaries({}, optional=dict(
        size=st.integers(0, 14).map(str),
        etc=st.sampled_from(['...', '', '>>', ' etc']),
        null=st.sampled_from(['NULL', '', 'n/a']),
        missing=st.sampled_from(['MISSING', '']),
        fmt=st.sampled_from(['upper', 'lower', 'shout', 'number', 'strip',
                             'title', 'whole-dollars', 'dollars-and-cents',
                             'collection-length', 'html-quote', 'url-quote',
                             'sql-quote', 'multi-line', 'comma-numeric',
                             'url-unquote', 'url-unquote-plus',
                             'url-quote-plus', '%s!', '%05d',
                             '%.2f', '[%s]', '%10s|'])))

    def mk(v, m, e, p1, p2, cf):
        opts = {k: None for k in m}
        opts.update(e)
        if 'etc' in opts and 'size' not in opts:
            del opts['etc']
        return dict(value=v, opts=opts, perm1=p1, perm2=p2, cfmt=cf)
    return st.builds(mk, value, mods, extra,
                     st.lists(st.integers(0, 20), max_size=8),
                     st.lists(st.integers(0, 20), max_size=8),
                     st.sampled_from([None, None, None, 's', '10s', '.3s',
                                      'd', '8.2f', '6s', 'r', 'X', '08X',
                                      'x', '.3E', '.2e', 'G', 'g', '10.4G',
                                      'o', 'i', 'F', 'c', 'S', 'D']))


def nontrivial(case):
    o = case['opts']
    nm = sum(1 for m in MODS if m in o)
    if nm >= 2:
        return True
    if case['value'][0] == 'undefined' and 'missing' in o:
        return True
    if 'null' in o and case['value'][0] in ('none', 'list') or \
            case['value'] == ['str', '']:
        return 'null' in o
    if 'size' in o and case['value'][0] == 'str' and \
            len(case['value'][1]) > int(o['size']):
        return True
    return False


def plan(tier, seed):
    shards = [dict(kind='subsets', r=r) for r in range(0, 13)]
    shards.append(dict(kind='order'))
    shards.append(dict(kind='twins'))
    n = 2000 if tier == 'quick' else 15000
    for i in range(12):
        shards.append(dict(kind='random', seed=seed * 1000 + i, n=n))
    return shards


def run_shard(shard):
    acc = Acc(ID, sample_every=67)
    kind = shard['kind']
    order, problems = infer_order()
    if kind == 'order':
        acc.case(['order-inference'], True, klass='order-inference', n=66 *
                 len(PROBES), distinct_by_construction=True,
                 sample=dict(inferred_order=order))
        acc.notes.append('inferred modifier order: %s' % order)
        for b, msg in problems:
            acc.fail(b, ['order-inference', b], msg)
        return acc.result()
    if order is None:
        return acc.result()
    if kind == 'twins':
        for case in twin_cases():
            bad = check_twins(case)
            acc.case(case, True, klass='equal-values-of-different-type',
                     distinct_by_construction=True)
            if bad:
                acc.fail(bad[0], case, bad[1])
        return acc.result()
    if kind == 'subsets':
        vals = PROBES[:3] + [CASEFUL]
        for mods in itertools.combinations(MODS, shard['r']):
            for vi, v in enumerate(vals):
                case = ['subset', list(mods), vi]
                exp = fold(mods, v, order)
                rev = list(reversed(mods))
                try:
                    got = render_opts(list(mods), dict(x=v))
                    got2 = render_opts(rev, dict(x=v))
                except Exception as e:
                    acc.fail('subset:exception:%s' % type(e).__name__, case,
                             repr(e))
                    continue
                acc.case(case, len(mods) >= 2, klass='subset',
                         distinct_by_construction=True)
                if got != got2:
                    acc.fail('order-dependent', case, '%r: %r vs reversed %r'
                             % (mods, got, got2))
                elif got != exp:
                    acc.fail('subset-fold', case,
                             'x=%r with %r rendered %r; folding the single '
                             'modifiers in the inferred order %r gives %r' % (
                                 v, mods, got, order, exp))
        return acc.result()
    strat = strategy()

    def run_case(case):
        fails = []
        b = check(case)
        if b and b != 'unspecified':
            fails.append(b)
        if case['value'][0] == 'str':
            fails.extend(check_laws(case['value'][1]))
            fails.extend(check_bytes(case['value'][1]))
        return fails, b == 'unspecified'

    def one(case):
        fails, unspec = run_case(case)
        acc.case(case, nontrivial(case), klass='random' if not unspec else
                 'random-unspecified')
        for b, msg in fails:
            acc.fail(b, case, msg)
    hyp_run(strat, one, shard['n'], shard['seed'])

    def bucket_of(c):
        f, _ = run_case(c)
        return f[0][0] if f else None
    shrink_failures(acc, strat, bucket_of, shard['seed'])
    return acc.result()


def replay(case):
    order, problems = infer_order()
    if isinstance(case, dict) and case.get('twin'):
        return check_twins(case)
    if isinstance(case, list):
        if case[0] == 'order-inference':
            return problems[0] if problems else None
        mods, v = case[1], (PROBES[:3] + [CASEFUL])[case[2]]
        got = render_opts(list(mods), dict(x=v))
        exp = fold(mods, v, order)
        if got != exp:
            return 'subset-fold', '%r %r -> %r expected %r' % (mods, v, got,
                                                               exp)
        return None
    b = check(case)
    if b and b != 'unspecified':
        return b
    if case['value'][0] == 'str':
        f = check_laws(case['value'][1]) + check_bytes(case['value'][1])
        if f:
            return f[0]
    return None
