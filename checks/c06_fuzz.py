"""Coverage-guided fuzzing (atheris / libFuzzer) of the template compilers
for C06 (thorough tier).  Bytes are decoded through a token table into a
source; the C06 oracle (checks.c06.check_source) runs inside the target."""
import json
import os
import shutil
import subprocess
import sys
import tempfile

HERE = os.path.dirname(os.path.abspath(__file__))
ROOT = os.path.dirname(HERE)


def table():
    from checks import c06
    toks = list(c06.PUMP)
    for name in ['var', 'if', 'in', 'with', 'let', 'try', 'unless', 'call',
                 'raise', 'return', 'comment', 'else', 'elif', 'except',
                 'finally', 'tree', 'foo']:
        toks.append('<dtml-%s' % name)
        toks.append('</dtml-%s>' % name)
        toks.append('%%(%s' % name)
    toks += [' x', ' name=x', ' expr="x"', ' "x+1"', ' size=3', ' orphan=1',
             ' mapping', ' sort=a', ' prefix=p', ' html_quote', ' q="1+"',
             ' q=a', ')[', ')]', ')s', '>', '-->', '<!--#', '<!--#/', 'text',
             '\n', ';', '&dtml-', 'x;']
    return toks[:256]


def decode(data):
    toks = table()
    if not data:
        return 'dtml', ''
    syntax = ('dtml', 'epfs', 'ssi')[data[0] % 3]
    src = ''.join(toks[b % len(toks)] for b in data[1:80])
    return syntax, src


def target_main(argv):
    """Runs inside the fuzzing subprocess."""
    out_file = argv[1]
    sys.path.insert(0, os.environ.get('VERIF_REPO_SRC', '/repo/src'))
    sys.path.insert(0, ROOT)
    sys.path.append(os.path.join(ROOT, '.deps'))
    import atheris
    with atheris.instrument_imports(include=['DocumentTemplate',
                                             'TreeDisplay']):
        import DocumentTemplate  # noqa
        import TreeDisplay  # noqa
    from checks import c06
    stats = {'n': 0, 'rejected': 0, 'samples': []}

    def dump():
        with open(out_file + '.stats', 'w') as f:
            json.dump(stats, f)

    def one(data):
        syntax, src = decode(data)
        v, d = c06.check_source(src, syntax)
        stats['n'] += 1
        if v in ('parse-error', 'syntax-error'):
            stats['rejected'] += 1
        if stats['n'] % 20000 == 1 and len(stats['samples']) < 5:
            stats['samples'].append([syntax, src[:120], v])
        if stats['n'] % 2000 == 0:
            dump()          # atexit handlers do not run under libFuzzer
        if v.startswith('!'):
            with open(out_file, 'w') as f:
                json.dump(dict(bucket=v[1:], msg=d, case=dict(
                    kind='soup', syntax=syntax, src=src)), f)
            raise RuntimeError('C06 violation: ' + v)

    atheris.Setup([argv[0]] + argv[2:], one)
    try:
        atheris.Fuzz()
    finally:
        dump()


def run(acc, shard):
    if not os.path.isdir(os.path.join(ROOT, '.deps', 'atheris')):
        acc.notes.append('atheris unavailable: fuzzing shard skipped')
        return acc.result()
    work = tempfile.mkdtemp(prefix='c06fuzz_')
    try:
        corpus = os.path.join(work, 'corpus')
        os.makedirs(corpus)
        if shard.get('corpus'):
            seeds = [b'\x00' + bytes([0, 2, 1]), b'\x01' + bytes([20, 8, 21]),
                     b'\x00' + bytes(range(40, 70))]
            for i, s in enumerate(seeds):
                with open(os.path.join(corpus, 'seed%d' % i), 'wb') as f:
                    f.write(s)
        out_file = os.path.join(work, 'violation.json')
        env = dict(os.environ, PYTHONHASHSEED='0',
                   PYTHONDONTWRITEBYTECODE='1')
        cmd = [sys.executable, os.path.abspath(__file__), out_file,
               '-runs=%d' % shard['runs'], '-seed=%d' % shard['seed'],
               '-max_len=80', '-print_final_stats=1', '-timeout=30', corpus]
        p = subprocess.run(cmd, env=env, stdout=subprocess.PIPE,
                           stderr=subprocess.STDOUT, text=True,
                           timeout=3600)
        n, rejected, samples = 0, 0, []
        if os.path.exists(out_file + '.stats'):
            st = json.load(open(out_file + '.stats'))
            n, rejected, samples = st['n'], st['rejected'], st['samples']
        else:
            import re
            m = re.search(r'stat::number_of_executed_units:\s*(\d+)', p.stdout)
            if m:
                n = int(m.group(1))
        cov = None
        import re
        m = re.findall(r'cov: (\d+)', p.stdout)
        if m:
            cov = int(m[-1])
        acc.evals += n
        acc.hist['atheris-executions'] += n
        acc.hist['atheris-rejected'] += rejected
        acc.nt_counted += rejected
        for s in samples[:2]:
            acc.samples.append(dict(fuzz=s))
        acc.notes.append('atheris shard seed=%d corpus=%s: %d executions, '
                         'coverage edges %s' % (shard['seed'],
                                                bool(shard.get('corpus')), n,
                                                cov))
        if os.path.exists(out_file):
            v = json.load(open(out_file))
            acc.fail(v['bucket'], v['case'], v['msg'])
        elif n == 0:
            acc.notes.append('atheris produced no executions: %s' %
                             p.stdout[-300:])
    finally:
        shutil.rmtree(work, ignore_errors=True)
    return acc.result()


if __name__ == '__main__':
    target_main(sys.argv)
