"""C01 - text outside tags is reproduced verbatim, in order; rendering
composes.  Oracle: reference interpreter + structural literal view + laws."""
import re

from vf import dtml, gen, harness, model
from vf.engine import Acc, hyp_run, shrink_failures

ID = 'C01'
RULE = ('Hypothesis-generated abstract templates (depth <= 3, all block '
        'tags, literals concatenated from the near-tag fragment alphabet, '
        'random line ends after block tags) printed in dtml / SSI / EPFS '
        'syntax with random style; tag-free literal soups; concatenations '
        'A+B and every top-level split.  Non-trivial: the source has >= 1 '
        'real tag and >= 1 literal containing <, &, %, a quote or a newline, '
        'or a line end directly after a block tag, or (concatenation) tags '
        'on both sides.  Distinct = distinct hash of (ast, style).')
RULE += (
         'Also: near-miss tags (one character inserted at every '
         'position of a real tag of each syntax; what the reference '
         'lexer no longer recognises as a tag must come out verbatim). ')
RULE += ('Round 8: literal look-alikes of dotted entities (&dtml.foo;), near-miss tags made by deleting 1-3 characters, loops with literal / empty bodies under every literal batch option set. ')
RULE += ('Round 9: literal text around insertions of every value kind (bytes included) and one-word literal bodies in 13 block positions. ')
ASSUMPTIONS = [
    'literal fragments that collide with a neighbouring tag according to a '
    'conservative reference lexer are dropped by construction (counted as '
    '"repairs"); unterminated tag openers are never generated as literals',
    'the reference interpreter vf/model.py is trusted',
]

CFG = gen.Config(kinds=['text', 'text', 'text', 'var', 'ent', 'call', 'if',
                        'unless', 'in', 'with', 'let', 'try', 'comment'],
                 max_depth=3, max_items=4)
NS = gen.base_ns()
SYNTAXES = ('dtml', 'ssi', 'epfs')
NEAR = re.compile(r'[<&%"\'\n]')


def strategy():
    from hypothesis import strategies as st
    tmpl = st.fixed_dictionaries(dict(kind=st.just('template'),
                                      ast=gen.template(CFG),
                                      style=gen.style()))
    soup = st.fixed_dictionaries(dict(
        kind=st.just('soup'),
        text=st.lists(st.sampled_from(gen.FRAGS + ['&dtml', '<', '<!--',
                                                   '%(', '&dtml-']),
                      min_size=1, max_size=10).map(''.join)))
    pair = st.fixed_dictionaries(dict(kind=st.just('concat'),
                                      a=gen.template(CFG),
                                      b=gen.template(CFG),
                                      syntax=st.sampled_from(SYNTAXES)))
    return st.one_of(tmpl, tmpl, tmpl, soup, pair)


def literal_runs(ast):
    """Expected literal pieces of the compiled program: the prepared AST's
    text, consecutive text nodes of one body merged, comments excluded."""
    runs = []

    def walk(nodes):
        cur = ''
        for n in nodes:
            if n['k'] == 'text':
                cur += n['s']
                continue
            if cur:
                runs.append(cur)
                cur = ''
            if n['k'] == 'comment':
                continue
            for b in dtml.subbodies(n):
                walk(b)
        if cur:
            runs.append(cur)
    walk(model.prepare(ast))
    return runs


def compiled_literals(blocks):
    """Strings that are direct members of block lists in the compiled
    program (generic walk; no attribute names are hard-coded)."""
    out = []
    seen = set()

    def walk(x):
        if isinstance(x, list):
            if id(x) in seen:       # one body shared by several handlers
                return
            seen.add(id(x))
            for y in x:
                if isinstance(y, str):
                    out.append(y)
                else:
                    walk(y)
        elif isinstance(x, tuple):
            for y in x:
                if not isinstance(y, str):
                    walk(y)
        elif isinstance(x, dict):
            for y in x.values():
                if not isinstance(y, str):
                    walk(y)
        elif hasattr(x, '__self__') and hasattr(x, '__func__'):
            walk(x.__self__)
        elif hasattr(x, '__dict__') and type(x).__module__.startswith(
                ('DocumentTemplate', 'TreeDisplay')):
            if id(x) in seen:
                return
            seen.add(id(x))
            walk(x.__dict__)
    walk(blocks)
    return out


def check_template(case, acc=None):
    fails = []
    ast, style = case['ast'], case['style']
    nt = False
    for sx in SYNTAXES:
        src, toks, used, repairs = dtml.sound_print(ast, sx, style)
        if acc is not None and repairs:
            acc.hist['literal-collision-repairs'] += 1
        has_tag = any(t[0] == 'tag' for t in toks)
        near = any(t[0] == 'lit' and NEAR.search(t[1]) for t in toks)
        eol_after = any(toks[i][0] == 'tag' and toks[i][4][0] != 'inline' and
                        i + 1 < len(toks) and toks[i + 1][0] == 'lit' and
                        model.SKIP_EOL.match(toks[i + 1][1])
                        for i in range(len(toks)))
        nt = nt or (has_tag and (near or eol_after))
        try:
            out_m, w_m, ns_m = harness.run_model(used, NS)
        except model.Unspecified:
            if acc is not None:
                acc.hist['unspecified-by-statement(skipped)'] += 1
            continue
        out_i, w_i, ns_i = harness.run_impl_twice(src, sx, NS)
        no_m, no_i = harness.norm_outcome(out_m), harness.norm_outcome(out_i)
        if no_m != no_i:
            fails.append((bucket_outcome(no_m, no_i, sx),
                          '%s source %r\n model %r\n impl  %r' % (
                              sx, src, no_m, no_i)))
            continue
        # structural view: nothing lost, duplicated or invented at compile
        # time, even in bodies that were not rendered
        try:
            t = harness.make_template(src, sx)
            t.cook()
            got = sorted(compiled_literals(t._v_blocks))
        except Exception as e:
            fails.append(('compile-exception:%s' % type(e).__name__,
                          '%s source %r: %r' % (sx, src, e)))
            continue
        exp = sorted(literal_runs(used))
        if got != exp:
            fails.append(('compiled-literals',
                          '%s source %r\n expected %r\n compiled %r' % (
                              sx, src, exp, got)))
    return fails, nt


def bucket_outcome(no_m, no_i, sx):
    if no_i[0] == 'raise' and no_m[0] != 'raise':
        return 'unexpected-exception:%s' % no_i[1]
    if no_i[0] == 'text' and no_m[0] == 'text':
        a, b = no_m[1], no_i[1]
        if len(b) < len(a):
            return 'text-lost'
        if len(b) > len(a):
            return 'text-extra'
        return 'text-changed'
    return 'outcome-kind'


def openers_in(text, cls):
    if cls == 'H':
        return dtml.HTML_OPENERS.search(text) is not None or \
            re.search(r'<dtml-|</dtml-|<!--#', text) is not None
    return dtml.EPFS_OPENER.search(text) is not None


def check_soup(case):
    from DocumentTemplate import HTML, String
    text = case['text']
    fails = []
    checked = 0
    for cls_name, cls in (('H', HTML), ('S', String)):
        if openers_in(text, cls_name):
            continue
        checked += 1
        try:
            out = cls(text)()
        except Exception as e:
            fails.append(('soup-exception:%s' % type(e).__name__,
                          '%s(%r)() raised %r' % (cls.__name__, text, e)))
            continue
        if out != text:
            fails.append(('soup-changed', '%s(%r)() == %r' % (
                cls.__name__, text, out)))
        # the same through the other ways a source reaches a template:
        # munge() of an existing template, and a file-based template whose
        # file is rewritten and re-read
        try:
            t = cls('first source &dtml')
            t()
            t.munge(text)
            out2 = t()
            t.munge('other')
            t.munge(text)
            out3 = t()
        except Exception as e:
            out2 = out3 = repr(e)
        if out2 != text or out3 != text:
            fails.append(('soup-changed:munge', 'munge(%r) renders %r / %r' % (
                text, out2, out3)))
        fails.extend(_file_soup(cls_name, text))
    return fails, checked > 0 and bool(NEAR.search(text))


def _file_soup(cls_name, text):
    import os
    import tempfile
    from DocumentTemplate import File, HTMLFile
    try:
        text.encode('utf-8')
    except UnicodeError:
        return []
    if '\r' in text:
        return []           # files are read in text mode (newline translation)
    fd, path = tempfile.mkstemp(suffix='.dtml')
    os.close(fd)
    try:
        with open(path, 'w', encoding='utf-8') as f:
            f.write('earlier content of the file')
        t = (HTMLFile if cls_name == 'H' else File)(path)
        first = t()
        with open(path, 'w', encoding='utf-8') as f:
            f.write(text)
        t.cook()
        out = t()
    except Exception as e:
        first, out = 'earlier content of the file', repr(e)
    finally:
        os.unlink(path)
    if first != 'earlier content of the file' or out != text:
        return [('soup-changed:file', 'file template: first %r, after the '
                 'file was rewritten with %r and re-read: %r' % (
                     first, text, out))]
    return []


def ends_with_block_tag(toks):
    """The source ends with a block tag, possibly followed by blanks only
    (which, together with a newline that follows, form one line end)."""
    i = len(toks) - 1
    while i >= 0 and toks[i][0] == 'lit' and not toks[i][1].strip(' \t'):
        i -= 1
    return i >= 0 and toks[i][0] == 'tag' and toks[i][4][0] != 'inline'


def check_concat(case):
    sx = case['syntax']
    fails = []
    sa, ta, ua, _ = dtml.sound_print(case['a'], sx)
    sb, tb, ub, _ = dtml.sound_print(case['b'], sx)
    joined = sa + sb
    shifted = [(t[0], t[1], t[2] + len(sa), t[3] + len(sa), t[4]) for t in tb]
    if dtml.collisions(joined, list(ta) + shifted, sx):
        return fails, False
    ra, _, _ = harness.run_impl(sa, sx, NS)
    rb, _, _ = harness.run_impl(sb, sx, NS)
    rj, _, _ = harness.run_impl(joined, sx, NS)
    nt = any(t[0] == 'tag' for t in ta) and any(t[0] == 'tag' for t in tb)
    if ra[0] != 'text' or rb[0] != 'text':
        return fails, False
    tail = sa[len(sa.rstrip(' \t')):]
    if ends_with_block_tag(ta) and model.SKIP_EOL.match(tail + sb):
        # excluded by the statement: only that line end may disappear
        try:
            out_m, _, _ = harness.run_model(ua + ub, NS)
        except model.Unspecified:
            return fails, False
        if harness.norm_outcome(out_m) != harness.norm_outcome(rj):
            fails.append(('concat-eol', '%r + %r: model %r impl %r' % (
                sa, sb, harness.norm_outcome(out_m),
                harness.norm_outcome(rj))))
        return fails, nt
    if rj[0] != 'text' or rj[1] != ra[1] + rb[1]:
        fails.append(('concat', 'render(%r + %r) = %r but parts give %r + %r'
                      % (sa, sb, harness.norm_outcome(rj), ra[1], rb[1])))
    return fails, nt


def check_splits(case):
    """Every split point of the template's top-level node list."""
    fails = []
    ast = case['ast']
    for i in range(1, len(ast)):
        f, _ = check_concat(dict(a=ast[:i], b=ast[i:], syntax='dtml'))
        fails.extend(f)
    return fails


def run_case(case):
    if case['kind'] == 'template':
        fails, nt = check_template(case)
        if not fails and len(case['ast']) > 1:
            fails = check_splits(case)
        return fails, nt
    if case['kind'] == 'soup':
        return check_soup(case)
    return check_concat(case)


# tag-free sources that are always checked: the empty source, single
# characters, near-tag fragments alone and at the end of a text
FIXED_SOUPS = ['', ' ', '\n', '\t\n', 'x', '0', '&', '<', '%', '&dtml',
               '&dtml-', '&dtml.', '<dtml', '<!--', '<!-', '%(', ')s', ';',
               '"', "'", '\r\n', 'é', '\x00', 'a\n', '\n\n', ' \n ',
               'text &dtml', 'text <', 'a & b < c > d " e \' f % g',
               '100% (sure)', '&amp; &lt; &#39;', '-->', ']', '[', '\\',
               # dotted entity look-alikes without a name part
               '&dtml.foo;', 'AT&dtml.T;', '&dtml.a.b;', '&dtml.x-;',
               '&dtml.-;', '&dtml.;', '&dtml-;', 'see &dtml.va; here',
               '&dtml.html_quote;', '&dtml.url_quote.va;', '&dtml..;']


# near-miss tags: one character inserted at every position of a real tag of
# each syntax.  Whatever the reference lexer does not recognise as (the
# beginning of) a tag any more is literal text and has to come out verbatim.
NEAR_BASES = ['%(x)s', '%(x)d', '%(x)5.2f', '%(x fmt=a)s', '%(if x)[',
              '%(if x)]', '%(else)!', '<dtml-var x>', '</dtml-if>',
              '<!--#var x-->', '<!--#/if-->', '&dtml-x;', '&dtml.url-x;']
NEAR_SEPS = [' ', '-', '+', '#', '.', '0', '\n', '\t', '_', '/', ';', '!',
             'é', '(', ')', '%', '&', '<', '"']


def near_miss_soups():
    seen = set()
    # one character (or a run of two or three) deleted from a real tag
    for base in NEAR_BASES + ['&dtml.url_quote-va;', '&dtml.a.b-va;',
                              '&dtml.-va;']:
        for i in range(len(base)):
            for w in (1, 2, 3):
                t = base[:i] + base[i + w:]
                for text in (t, 'growth 12' + t + ' of sales'):
                    if text not in seen:
                        seen.add(text)
                        yield text
    for base in NEAR_BASES:
        for i in range(1, len(base) + 1):
            for sep in NEAR_SEPS:
                t = base[:i] + sep + base[i:]
                for text in (t, 'growth 12' + t + ' of sales',
                             t + 'o', t + ' d'):
                    if text not in seen:
                        seen.add(text)
                        yield text


def fixed_in_templates():
    """Loops whose body is literal text only, text around an insertion, or
    empty, under every literal batch option set of the generator: the text is
    emitted once per displayed element."""
    T = lambda s: dict(k='text', s=s)
    bodies = [[T('x')], [T('<b> & %\n')], [],
              [T('['), dict(k='var', ref=dict(r='name', n='sequence-index'),
                            opts=[]), T(']')],
              [T('a'), dict(k='comment', body=[T('gone')], eol=['', '']),
               T('b')]]
    for seq in ('ss', 's2', 'sm', 's0'):
        base = [['mapping', None]] if seq == 'sm' else []
        for opts in [[]] + gen.BATCH_OPTS:
            for b in bodies:
                for els in (None, [T('(none)')]):
                    if els is not None and seq not in ('s0', 'ss'):
                        continue
                    for eol in (['', '', ''], ['\n', ' \n', '\n']):
                        yield [T('<'), dict(
                            k='in', ref=dict(r='name', n=seq),
                            opts=base + opts, body=b, eol=eol,
                            **{'else': els}), T('>')]


def fixed_value_kind_templates():
    """Literal text around insertions of every kind of value (text, bytes,
    number, None, callable result) at top level and in every block body: the
    text comes out whatever was inserted next to it.  Bodies that consist of
    one literal only, spelled like words the engine uses internally."""
    T = lambda s: dict(k='text', s=s)
    V = lambda n: dict(k='var', ref=dict(r='name', n=n), opts=[])
    N = lambda n: dict(r='name', n=n)
    runs = [[T('Dear '), V(a), T(', welcome to <'), V(b), T('>!\n')]
            for a, b in (('vby', 'va'), ('va', 'vby'), ('vby', 'vby'),
                         ('vn', 'vby'), ('vby', 'vnone'), ('fa', 'vby'))]
    words = ['i', 'if', 'item', 'is not', 'in "%" <d', 'v', 'var', 'e',
             'else', 't', 'try', 's', 'sequence-item', '0', "('i',)", 'None']
    bodies = runs + [[T(w)] for w in words]
    wraps = {
        'top': lambda b: b,
        'if': lambda b: [dict(k='if', conds=[N('ct')], bodies=[b],
                              **{'else': None})],
        'else': lambda b: [dict(k='if', conds=[N('cf')], bodies=[[T('no')]],
                                **{'else': b})],
        'elif': lambda b: [dict(k='if', conds=[N('cf'), N('ct')],
                                bodies=[[T('no')], b], **{'else': [T('n')]})],
        'elif-else': lambda b: [dict(k='if', conds=[N('cf'), N('vz')],
                                     bodies=[[T('no')], [T('n')]],
                                     **{'else': b})],
        'unless': lambda b: [dict(k='unless', ref=N('cf'), body=b)],
        'in': lambda b: [dict(k='in', ref=N('ss'), opts=[], body=b,
                              **{'else': None})],
        'in-else': lambda b: [dict(k='in', ref=N('s0'), opts=[],
                                   body=[T('no')], **{'else': b})],
        'with': lambda b: [dict(k='with', ref=N('oa'), mapping=False,
                                only=False, body=b)],
        'let': lambda b: [dict(k='let', binds=[['la', N('vb')]], body=b)],
        'try': lambda b: [dict(k='try', body=b, handlers=[dict(
            names=[], body=[T('h')])], **{'else': None, 'finally': None})],
        'try-else': lambda b: [dict(k='try', body=[T('t')], handlers=[dict(
            names=[], body=[T('h')])], **{'else': b, 'finally': None})],
        'handler': lambda b: [dict(k='try', body=[V('fr')], handlers=[dict(
            names=['VfA'], body=b)], **{'else': None, 'finally': None})],
        'finally': lambda b: [dict(k='try', body=[T('t')], handlers=[],
                                   **{'else': None, 'finally': b})],
    }
    for wn, w in sorted(wraps.items()):
        for b in bodies:
            yield [T('<')] + w(b) + [T('>')]


def plan(tier, seed):
    n = 500 if tier == "quick" else 6000
    return [dict(seed=seed * 1000 + i, n=n) for i in range(16)] + \
        [dict(fixed=True)]


def run_shard(shard):
    acc = Acc(ID, sample_every=53)
    if shard.get('fixed'):
        for text in FIXED_SOUPS:
            case = dict(kind='soup', text=text)
            fails, nt = check_soup(case)
            acc.case(case, True, klass='fixed-soup',
                     distinct_by_construction=True)
            for b, msg in fails:
                acc.fail(b, case, msg)
        for i, ast in enumerate(fixed_in_templates()):
            case = dict(kind='template', ast=ast, style=[i % 51, i % 7])
            fails, nt = check_template(case, acc)
            acc.case(case, True, klass='fixed-in-body',
                     distinct_by_construction=True)
            for b, msg in fails:
                acc.fail(b + ':in-body', case, msg)
        for i, ast in enumerate(fixed_value_kind_templates()):
            case = dict(kind='template', ast=ast, style=[i % 51, i % 5])
            fails, nt = check_template(case, acc)
            acc.case(case, True, klass='fixed-value-kinds',
                     distinct_by_construction=True)
            for b, msg in fails:
                acc.fail(b + ':value-kinds', case, msg)
        for text in near_miss_soups():
            case = dict(kind='soup', text=text)
            fails, nt = check_soup(case)
            acc.case(case, nt, klass='near-miss-soup',
                     distinct_by_construction=True)
            for b, msg in fails:
                acc.fail(b + ':near-miss', case, msg)
        return acc.result()
    strat = strategy()

    def one(case):
        if case['kind'] == 'template':
            fails, nt = check_template(case, acc)
            if not fails and len(case['ast']) > 1:
                fails = check_splits(case)
        else:
            fails, nt = run_case(case)
        acc.case(case, nt, klass=case['kind'])
        for b, msg in fails:
            acc.fail(b, case, msg)
    hyp_run(strat, one, shard['n'], shard['seed'])

    def bucket_of(c):
        fails, _ = run_case(c)
        return fails[0][0] if fails else None
    shrink_failures(acc, strat, bucket_of, shard['seed'])
    return acc.result()


def replay(case):
    fails, _ = run_case(case)
    if fails:
        return fails[0]
    return None
