"""C16 - summary statistics inside dtml-in equal independently computed
values.  Oracle: closed-form recomputation with stated tolerances."""
import math

from vf.engine import Acc, hyp_run, shrink_failures

ID = 'C16'
RULE = ('Hypothesis: lists of 1..10 values: ints (|x| <= 10^6), floats '
        '(incl. equal floats such as [0.1]*3, halves, negatives, large '
        'offsets), strings, None, in the mixes the documentation defines '
        '(numbers + None, strings + None), as object attributes and with '
        '"mapping"; all ten statistics read as Python objects on the last '
        'element.  Non-trivial: >= 3 non-None values not all equal, or '
        'all-equal floats (the rounding case).  Distinct = case hash.')
RULE += (
         'Also: the summarised variable named like sequence variables '
         '(item, key, count, length, index); no_push_item. ')
RULE += (
         'Second summarised variable asked interleaved; fixed lists '
         'under every option x name x order x kind. ')
RULE += ('Round 9: plain value sequences summarised as item. ')
ASSUMPTIONS = [
    'count, min, max exact; total exact for ints and within tolerance for '
    'floats; mean within 1e-9*(1+mean square), variance / variance-n within '
    '64 ulp of (1+mean square) (the rounding the one-pass formula can incur) '
    'absolute (the documented one-pass formula cancels); each standard '
    'deviation must equal sqrt of the reported variance (relative 1e-9)',
    'even-count median: any value between the two middle values (numbers) '
    'or a text naming both (strings)',
]

NAMES = ['count', 'total', 'min', 'max', 'mean', 'variance', 'variance-n',
         'standard-deviation', 'standard-deviation-n', 'median']
_T = {}


class O:
    def __init__(self, x, name='x'):
        if x != 'MISSING-ATTR':
            setattr(self, name, x)


# names of the summarised variable, including ones that also are names of
# sequence variables
STAT_NAMES = ['x', 'x', 'x', 'item', 'key', 'n', 'count', 'length', 'index']


# tag options that must not change what the statistics are (they are about
# all x values of the sequence, whatever is displayed and in which order)
TAG_OPTS = ['', '', '', 'sort=x', 'sort=x/cmp/desc', 'reverse',
            'sort=x reverse', 'size=2 start=1 orphan=0', 'prefix=p',
            'size=3 orphan=0 sort=x', 'sort=x/nocase', 'sort=x/nocase/desc',
            'no_push_item', 'no_push_item sort=x size=4 orphan=0']


def wval(i):
    """Values of the second summarised variable `w` (always numbers)."""
    return (i * 7) % 5 + 100


def template(mapping, name='x', opts='', order=0):
    """order: 0 = the statistics of `name` only; 1 = interleaved with the
    same statistics of a second variable `w`; 2 = all of w first; 3 = w
    interleaved, statistics in reverse order.  The result lists the values
    for `name` in the order of NAMES, then median-w and count-w."""
    from DocumentTemplate import HTML
    key = (mapping, name, opts, order)
    if key not in _T:
        names = NAMES[::-1] if order == 3 else NAMES
        refs = []
        if order == 2:
            refs += [(n, 'w') for n in names]
        for n in names:
            refs.append((n, name))
            if order in (1, 3):
                refs.append((n, 'w'))
        lets = ' '.join('v%d="_[\'%s-%s\']"' % (k, n, nm)
                        for k, (n, nm) in enumerate(refs))
        pos = {r: k for k, r in enumerate(refs)}
        expr = '[' + ', '.join('v%d' % pos[(n, name)] for n in NAMES)
        if order:
            expr += ', v%d, v%d' % (pos[('median', 'w')], pos[('count', 'w')])
        expr += ']'
        _T[key] = HTML('<dtml-in s%s %s><dtml-if sequence-end><dtml-let %s>'
                       '<dtml-return "%s"></dtml-let></dtml-if></dtml-in>' % (
                           ' mapping' if mapping else '', opts, lets, expr))
    return _T[key]


def check(case):
    vals = [None if v is None else v for v in case['vals']]
    if case['kind'] == 'date':
        import datetime
        vals = [None if v is None else datetime.date(2021, 1 + v % 12,
                                                     1 + v % 28)
                for v in vals]
    mapping = case['mapping']
    name = STAT_NAMES[case.get('name', 0) % len(STAT_NAMES)]
    seq = [{name: v} for v in vals] if mapping else [O(v, name)
                                                     for v in vals]
    order = case.get('order', 0) % 4
    opts = TAG_OPTS[case.get('opts', 0) % len(TAG_OPTS)]
    if case.get('plain'):
        # a sequence of plain values, summarised as 'item'
        mapping, name, order = False, 'item', 0
        seq = list(vals)
        if 'sort=' in opts or 'no_push_item' in opts:
            opts = 'reverse' if 'reverse' in opts else ''
    for i, e in enumerate(seq):
        if case.get('plain'):
            break
        if mapping:
            e['w'] = wval(i)
        else:
            e.w = wval(i)
    if 'nocase' in opts and (case['kind'] != 'str' or None in vals):
        # a comparison function of the author's is only handed real strings
        opts = opts.replace('/nocase/desc', '/cmp/desc').replace('/nocase',
                                                                 '')
    try:
        out = template(mapping, name, opts.replace('sort=x', 'sort=' + name),
                       order)(s=seq)
    except Exception as e:
        kind = 'equal-floats' if len(set(v for v in vals if v is not None)) \
            == 1 else 'other'
        return ('exception:%s:%s' % (type(e).__name__, kind),
                '%r raised %r' % (vals, e))
    if order and isinstance(out, list) and len(out) == len(NAMES) + 2:
        ws = sorted(wval(i) for i in range(len(vals)))
        mw, cw = out[-2:]
        out = out[:-2]
        okm = ws[(len(ws) - 1) // 2] <= mw <= ws[len(ws) // 2] \
            if isinstance(mw, (int, float)) else False
        if cw != len(ws) or not okm:
            return ('second-variable', '%r: w values %r give median-w %r '
                    'count-w %r' % (vals, ws, mw, cw))
    if not isinstance(out, list) or len(out) != len(NAMES):
        return 'no-result', '%r returned %r' % (vals, out)
    d = dict(zip(NAMES, out))
    xs = [v for v in vals if v is not None]
    c = len(xs)
    if d['count'] != c:
        return 'count', '%r: count %r, expected %d' % (vals, d['count'], c)
    if c == 0:
        return None
    if case['kind'] in ('str', 'date'):
        # non-numeric values: count, min, max, median only
        sx = sorted(xs)
        if case['kind'] == 'date':
            sx = sorted(xs)
            lo_hi = [str(v) for v in sx]
        if d['min'] != sx[0] or d['max'] != sx[-1]:
            return 'str-minmax', '%r: min %r max %r' % (vals, d['min'],
                                                        d['max'])
        for k in ('total', 'mean', 'variance', 'variance-n',
                  'standard-deviation', 'standard-deviation-n'):
            if d[k] != '':
                return 'str-numeric-nonempty', '%r: %s = %r' % (vals, k, d[k])
        if c % 2 == 1:
            if d['median'] != sx[c // 2]:
                return 'str-median-odd', '%r: median %r' % (vals, d['median'])
        else:
            lo, hi = sx[c // 2 - 1], sx[c // 2]
            m = d['median']
            if lo == hi:
                ok = m == lo or (isinstance(m, str) and str(lo) in m)
            else:
                ok = isinstance(m, str) and str(lo) in m and str(hi) in m
            if not ok:
                return 'str-median-even', '%r: median %r, middle values %r ' \
                    '%r' % (vals, m, lo, hi)
        return None
    # numeric
    fl = [float(x) for x in xs]
    if case['kind'] == 'huge':
        # squares overflow: only the statistics that do not need them
        tot = math.fsum(fl)
        if d['min'] != min(xs) or d['max'] != max(xs):
            return 'minmax', '%r: min %r max %r' % (vals, d['min'], d['max'])
        if not isinstance(d['total'], (int, float)) or \
                abs(d['total'] - tot) > 1e-9 * sum(abs(x) for x in fl):
            return 'total', '%r: total %r expected %r' % (vals, d['total'],
                                                          tot)
        if not isinstance(d['mean'], (int, float)) or \
                abs(d['mean'] - tot / c) > 1e-9 * sum(abs(x) for x in fl):
            return 'mean', '%r: mean %r expected %r' % (vals, d['mean'],
                                                        tot / c)
        sx = sorted(xs)
        m = d['median']
        if not isinstance(m, (int, float)) or not (
                sx[(c - 1) // 2] <= m <= sx[c // 2]):
            return 'median-huge', '%r: median %r' % (vals, m)
        return None
    msq = sum(x * x for x in fl) / c
    tol = 1e-9 * (1 + msq)
    # the variances are computed as (sum of squares)/n - mean**2: with at
    # most 11 roundings of relative size 2**-53 on terms of size <= msq the
    # result is within a few ulp of msq; 64 ulp leaves a 5x margin
    vtol = 64 * 2.0 ** -52 * (1 + msq)
    tot = math.fsum(fl)
    if all(isinstance(x, int) for x in xs):
        if d['total'] != sum(xs):
            return 'total', '%r: total %r' % (vals, d['total'])
    elif not isinstance(d['total'], (int, float)) or \
            abs(d['total'] - tot) > 1e-9 * (1 + sum(abs(x) for x in fl)):
        return 'total', '%r: total %r expected %r' % (vals, d['total'], tot)
    if d['min'] != min(xs) or d['max'] != max(xs):
        return 'minmax', '%r: min %r max %r' % (vals, d['min'], d['max'])
    mean = tot / c
    if not isinstance(d['mean'], (int, float)) or abs(d['mean'] - mean) > tol:
        return 'mean', '%r: mean %r expected %r' % (vals, d['mean'], mean)
    varn = math.fsum((x - mean) ** 2 for x in fl) / c
    if not isinstance(d['variance-n'], (int, float)) or \
            abs(d['variance-n'] - varn) > vtol:
        return 'variance-n', '%r: variance-n %r expected %r' % (
            vals, d['variance-n'], varn)
    if c > 1:
        var = math.fsum((x - mean) ** 2 for x in fl) / (c - 1)
        if not isinstance(d['variance'], (int, float)) or \
                abs(d['variance'] - var) > vtol * c / (c - 1):
            return 'variance', '%r: variance %r expected %r' % (
                vals, d['variance'], var)
    else:
        if d['variance'] != '' or d['standard-deviation'] != '':
            return 'variance-of-one', '%r: variance %r sd %r' % (
                vals, d['variance'], d['standard-deviation'])
    for sd, v in (('standard-deviation-n', 'variance-n'),
                  ('standard-deviation', 'variance')):
        if d[v] == '':
            continue
        if d[v] < 0:
            return 'negative-variance', '%r: %s = %r' % (vals, v, d[v])
        exp = math.sqrt(d[v])
        if not isinstance(d[sd], (int, float)) or \
                abs(d[sd] - exp) > 1e-9 * (1 + exp):
            return sd, '%r: %s = %r but sqrt(%s) = %r' % (vals, sd, d[sd], v,
                                                          exp)
    sx = sorted(xs)
    m = d['median']
    if not isinstance(m, (int, float)):
        return 'median-type', '%r: median %r' % (vals, m)
    if c % 2 == 1:
        if m != sx[c // 2]:
            return 'median-odd', '%r: median %r expected %r' % (vals, m,
                                                                sx[c // 2])
    else:
        lo, hi = sx[c // 2 - 1], sx[c // 2]
        if not lo <= m <= hi:
            kind = 'float' if any(isinstance(x, float) for x in (lo, hi)) \
                else 'int'
            return ('median-even:%s' % kind, '%r: median %r is not between '
                    'the middle values %r and %r' % (vals, m, lo, hi))
    return None


def strategy():
    from hypothesis import strategies as st
    none = st.none()
    ints = st.integers(-10 ** 6, 10 ** 6)
    small = st.integers(-5, 5)
    floats = st.one_of(
        st.sampled_from([0.1, 0.25, 1.5, -2.75, 3.3, 1000.1, 0.3, 2.0, 1e6,
                         -0.1, 1e-3]),
        st.floats(-1e4, 1e4, allow_nan=False).map(lambda f: round(f, 4)))
    strs = st.sampled_from(['a', 'b', 'ab', 'Z', '', 'zz', 'B', 'ox', 'pear',
                            'fig', 'Ab', 'abc'])

    def lst(el, kind):
        return st.lists(st.one_of(el, el, el, el, none), min_size=1,
                        max_size=10).map(lambda v: dict(kind=kind, vals=v))
    eqf = st.tuples(st.sampled_from([0.1, 0.3, 0.7, 1.1, 2.675, 1e6 + 0.1]),
                    st.integers(1, 8), st.booleans()).map(
        lambda t: dict(kind='eqfloat', vals=[t[0]] * t[1] + (
            [None] if t[2] else [])))
    mix = st.lists(st.one_of(small, floats, none), min_size=1,
                   max_size=10).map(lambda v: dict(kind='mixnum', vals=v))
    # large magnitude, small spread (the variance is tiny next to mean**2)
    near = st.tuples(
        st.sampled_from([10 ** 6, 10 ** 5, 250.0, 10.0, 12345.678, -4000.5,
                         65536, 10 ** 4]),
        st.lists(st.one_of(st.integers(0, 3), st.sampled_from(
            [0.0002, 0.005, 0.0025, 0.5, 0.125])), min_size=2, max_size=6),
        st.booleans()).map(lambda t: dict(
            kind='mixnum', vals=[t[0] + x for x in t[1]] + (
                [None] if t[2] else [])))
    # magnitudes whose square is not a finite float
    huge = st.lists(st.one_of(
        st.sampled_from([1e200, -1e180, 1.5e154, 1e155, -2e155, 1e300]),
        floats, small, none), min_size=1, max_size=7).filter(
            lambda v: any(isinstance(x, float) and abs(x) > 1e154
                          for x in v)).map(
                              lambda v: dict(kind='huge', vals=v))
    base = st.one_of(lst(ints, 'int'), lst(small, 'int'), lst(floats,
                                                              'float'),
                     mix, lst(strs, 'str'), eqf, near, huge)
    dates = st.lists(st.one_of(st.integers(0, 40), st.integers(0, 40),
                               none), min_size=1, max_size=8).map(
        lambda v: dict(kind='date', vals=v))
    return st.tuples(st.one_of(base, base, base, base, dates),
                     st.booleans(), st.integers(0, 13),
                     st.integers(0, 8), st.integers(0, 3)).map(
        lambda t: dict(t[0], mapping=t[1], opts=t[2], name=t[3],
                       order=t[4], plain=[None, None, None, 'values',
                                          'values'][(t[2] + t[3]) % 5]
                       if t[0]['kind'] != 'date' else None))


def nontrivial(case):
    xs = [v for v in case['vals'] if v is not None]
    if case['kind'] == 'eqfloat':
        return len(xs) >= 2
    return len(xs) >= 3 and len(set(xs)) > 1


# fixed value lists, rendered under every tag option x variable name x
# order of asking x element kind (so that no option combination depends on
# the random stream)
FIXED = [
    ('int', [3, 1, 2, 5]), ('int', [4, 4, 1]), ('int', [None, 2, 9, 7, 7]),
    ('int', [6]), ('float', [2.5, -1.0, 7.25, 0.5, 3.0]),
    ('str', ['b', 'A', 'c', 'B', 'a']),
    ('str', ['Zeta', 'alpha', 'Beta', 'gamma']),
    ('str', ['x', None, 'Y', 'z']), ('date', [5, 1, 9, 3]),
    ('date', [2, None, 30, 11, 7]),
]


def fixed_cases():
    for kind, vals in FIXED + [('str', ['pear', 'fig', 'ox']),
                               ('str', ['ab', 'b', 'Zz', 'a', 'zz'])]:
        if kind != 'date':
            for opts in (0, 5, 7, 8):
                for plain in ('values',):
                    yield dict(kind=kind, vals=vals, mapping=False,
                               opts=opts, name=3, order=0, plain=plain)
        for opts in range(len(TAG_OPTS)):
            for name in (0, 3, 4, 6):
                for order in range(4):
                    for mapping in (False, True):
                        yield dict(kind=kind, vals=vals, mapping=mapping,
                                   opts=opts, name=name, order=order)


def plan(tier, seed):
    n = 1500 if tier == 'quick' else 10000
    return [dict(seed=seed * 1000 + i, n=n) for i in range(16)] + \
        [dict(fixed=True, part=i) for i in range(4)]


def run_shard(shard):
    acc = Acc(ID, sample_every=89)
    if shard.get('fixed'):
        for case in list(fixed_cases())[shard['part']::4]:
            bad = check(case)
            acc.case(case, nontrivial(case), klass='fixed:' + case['kind'],
                     distinct_by_construction=True)
            if bad:
                acc.fail(bad[0] + ':fixed', case, bad[1])
        return acc.result()
    strat = strategy()

    def one(case):
        bad = check(case)
        acc.case(case, nontrivial(case), klass=case['kind'])
        if bad:
            acc.fail(bad[0], case, bad[1])
    hyp_run(strat, one, shard['n'], shard['seed'])

    def bucket_of(c):
        b = check(c)
        return b[0] if b else None
    shrink_failures(acc, strat, bucket_of, shard['seed'])
    return acc.result()


def replay(case):
    return check(case)
