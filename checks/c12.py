"""C12 - batching a lazy sequence pulls only the window plus one look-ahead
batch.  Oracle: pull counter on the sequence vs the bound of the statement
(end of the displayed window + size + orphan)."""
import itertools
import re

from vf.engine import Acc, CpuTimeout, cpu_limit

ID = 'C12'
EXHAUSTIVE = ('thorough',)
RULE = ('enumeration of the C11 lattice (start, end in -1..16, size in '
        '-1..7, orphan 0..4, overlap 0..3) over counting iterators and a '
        'lazy __getitem__/__len__ class of length 0..14 (thorough) or '
        '{3, 9, 14} (quick) and unbounded; unbatched renderings of bounded '
        'iterators; whole-sequence requests (sort, reverse, sequence-length, '
        'next-batches, statistics) only for termination; a sub-lattice x '
        'producer kinds (iterator with / without __length_hint__, '
        'generator, map, itertools.chain, lazy class with / without '
        '__len__) x tag variants that must stay lazy (reverse_expr giving a '
        'false value, prefix, no_push_item, skip_unauthorized, mapping, '
        'sequence given by expression, literal parameters).  Non-trivial: '
        'unbounded input, or bounded with length > end shown + step size + '
        'orphan.  Tuples are distinct by construction.')
RULE += (
         'Also: an item guard refusing one element of the window (pull '
         'bound, no len(), termination); unbatched loops left early by '
         'return / exception still pull every element exactly once. ')
RULE += (
         'Re-entered template variant; page sizes 20..250. ')
RULE += ('Round 8: the bound uses the requested size whenever one is given. ')
RULE += ('Round 9: lazily produced (key, value) pairs. ')
RULE += ('Round 10: batch links written as nested tags over the same name. ')
ASSUMPTIONS = [
    'bound = last displayed element + step size + orphan; when size < 1 the '
    'reported sequence-step-size is used',
    'an unbounded iterator that is pulled 20000 times counts as '
    'non-termination',
]

BODY = ('[<dtml-var sequence-item>|<dtml-if sequence-end>'
        '<dtml-var sequence-step-size></dtml-if>]')
ROW = re.compile(r'\[(-?\d+)\|(-?\d*)\]')
_T = {}


class Runaway(Exception):
    pass


class Counting:
    """Iterator yielding 1, 2, 3 ... (bounded or not), counting pulls."""

    def __init__(self, L):
        self.L = L
        self.pulled = 0

    def __iter__(self):
        return self

    def __next__(self):
        if self.L is not None and self.pulled >= self.L:
            raise StopIteration
        self.pulled += 1
        if self.pulled > 20000:
            raise Runaway()
        return self.pulled


class Hinted(Counting):
    """Iterator that also offers the optional __length_hint__."""

    def __length_hint__(self):
        return 1000 if self.L is None else max(self.L - self.pulled, 0)


class LazySeq:
    def __init__(self, L):
        self.L = L
        self.maxindex = -1
        self.lens = 0

    def __getitem__(self, i):
        if i < 0:
            raise IndexError(i)
        if i > 20000:
            raise Runaway()
        self.maxindex = max(self.maxindex, i)
        if self.L is not None and i >= self.L:
            raise IndexError(i)
        return i + 1

    def __len__(self):
        self.lens += 1
        if self.L is None:
            raise Runaway()
        return self.L


class LazyNoLen(LazySeq):
    __len__ = None


VARIANTS = {
    'reverse_expr-0': '<dtml-in s start=st end=en size=sz orphan=orp '
                      'overlap=ov reverse_expr="0">%s<dtml-else>EMPTY'
                      '</dtml-in>',
    'reverse_expr-var': '<dtml-in s start=st end=en size=sz orphan=orp '
                        'overlap=ov reverse_expr="rv">%s<dtml-else>EMPTY'
                        '</dtml-in>',
    'prefix': '<dtml-in s start=st end=en size=sz orphan=orp overlap=ov '
              'prefix=pq>%s<dtml-else>EMPTY</dtml-in>',
    'no_push_item': '<dtml-in s no_push_item start=st end=en size=sz '
                    'orphan=orp overlap=ov>%s<dtml-else>EMPTY</dtml-in>',
    'skip_unauthorized': '<dtml-in s skip_unauthorized start=st end=en '
                         'size=sz orphan=orp overlap=ov>%s<dtml-else>EMPTY'
                         '</dtml-in>',
    'expr': '<dtml-in "s" start=st end=en size=sz orphan=orp overlap=ov>'
            '%s<dtml-else>EMPTY</dtml-in>',
    'expr=': '<dtml-in expr="s" size=sz start=st end=en orphan=orp '
             'overlap=ov>%s<dtml-else>EMPTY</dtml-in>',
    # every documented batch variable except the ones the statement excepts
    # (sequence-length, next-batches, statistics)
    'batch-vars': '<dtml-in s start=st end=en size=sz orphan=orp '
                  'overlap=ov>%s<dtml-if sequence-start>'
                  '<dtml-if previous-sequence>p'
                  '<dtml-var previous-sequence-start-index>:'
                  '<dtml-var previous-sequence-end-index>:'
                  '<dtml-var previous-sequence-size>:'
                  '<dtml-var previous-sequence-start-number>'
                  '<dtml-in previous-batches mapping>'
                  '(<dtml-var batch-start-index>-<dtml-var batch-end-index>-'
                  '<dtml-var batch-size>)</dtml-in></dtml-if></dtml-if>'
                  '<dtml-if sequence-end><dtml-if next-sequence>n'
                  '<dtml-var next-sequence-start-index>:'
                  '<dtml-var next-sequence-end-index>:'
                  '<dtml-var next-sequence-size></dtml-if>'
                  's<dtml-var sequence-step-start-index>:'
                  '<dtml-var sequence-step-end-index>:'
                  '<dtml-var sequence-step-size></dtml-if>'
                  '<dtml-var sequence-index>,<dtml-var sequence-number>,'
                  '<dtml-var sequence-roman>,<dtml-var sequence-letter>,'
                  '<dtml-if sequence-even>e</dtml-if>'
                  '<dtml-if first-real>f</dtml-if><dtml-if last-real>l</dtml-if>'
                  '<dtml-var sequence-var-real>,'
                  '<dtml-else>EMPTY</dtml-in>',
    # the flag forms render their body once, for the next / previous batch
    'next-form': '<dtml-in s next start=st end=en size=sz orphan=orp '
                 'overlap=ov>N<dtml-var next-sequence-start-number>;'
                 '<dtml-var next-sequence-size><dtml-else>E</dtml-in>',
    'previous-form': '<dtml-in s previous start=st end=en size=sz '
                     'orphan=orp overlap=ov>P'
                     '<dtml-var previous-sequence-start-number>;'
                     '<dtml-var previous-sequence-size><dtml-else>E'
                     '</dtml-in>',
    # while the block renders an element, the same compiled template is
    # rendered once more with another (longer) window on another sequence
    'reentrant': '<dtml-in s start=st end=en size=sz orphan=orp overlap=ov>'
                 '%s<dtml-var hook><dtml-else>EMPTY</dtml-in>',
    # the batch links of the page, written as nested tags over the same
    # name inside the body (they see the sequence the loop is walking)
    'nested-links': '<dtml-in s start=st end=en size=sz orphan=orp '
                    'overlap=ov>%s<dtml-if sequence-end><dtml-in s next '
                    'start=st end=en size=sz orphan=orp overlap=ov>more'
                    '</dtml-in><dtml-in s previous start=st end=en size=sz '
                    'orphan=orp overlap=ov>less</dtml-in></dtml-if>'
                    '<dtml-else>EMPTY</dtml-in>',
    'literal': None,     # parameters written as integer literals
    'plain': '<dtml-in s start=st end=en size=sz orphan=orp overlap=ov>%s'
             '<dtml-else>EMPTY</dtml-in>',
}
SEQKINDS = ['iter', 'hinted', 'gen', 'map', 'chain', 'lazy', 'lazy-nolen',
            # lazily produced (key, value) pairs: items(), zip, enumerate
            'pairs', 'enumerate']


def make_seq(seqkind, L):
    """-> (counter object, value handed to the template)"""
    if seqkind in ('lazy', 'lazy-nolen'):
        c = (LazySeq if seqkind == 'lazy' else LazyNoLen)(L)
        return c, c
    c = Hinted(L) if seqkind == 'hinted' else Counting(L)
    if seqkind in ('iter', 'hinted'):
        return c, c
    if seqkind == 'gen':
        return c, (x for x in c)
    if seqkind == 'map':
        return c, map(int, c)
    if seqkind == 'pairs':
        return c, (('k%d' % x, x) for x in c)
    if seqkind == 'enumerate':
        return c, enumerate(c)
    return c, itertools.chain(c)


def template(kind='batch'):
    from DocumentTemplate import HTML
    t = _T.get(kind)
    if t is None:
        if kind == 'batch':
            src = ('<dtml-in s start=st end=en size=sz orphan=orp overlap=ov>'
                   '%s<dtml-else>EMPTY</dtml-in>' % BODY)
        elif kind == 'plain':
            src = '<dtml-in s>[<dtml-var sequence-item>|]</dtml-in>'
        else:
            src = kind
        t = _T[kind] = HTML(src)
    return t


def check(case):
    L, start, end, size, orphan, overlap, seqkind = case[:7]
    variant = case[7] if len(case) > 7 else None
    seq, handed = make_seq(seqkind, L)
    if variant == 'literal':
        tkey = ('<dtml-in s start=%d end=%d size=%d orphan=%d overlap=%d>'
                '%%s<dtml-else>EMPTY</dtml-in>' % (start, end, size, orphan,
                                                   overlap)) % BODY
    elif variant in ('next-form', 'previous-form'):
        tkey = VARIANTS[variant]
    elif variant:
        tkey = VARIANTS[variant] % BODY
    else:
        tkey = 'batch'
    window = None
    if variant in ('next-form', 'previous-form'):
        # the window these forms refer to: from the plain rendering of the
        # same parameters on a sequence of its own
        s0, h0 = make_seq(seqkind, L)
        try:
            with cpu_limit(5.0):
                plain = template('batch')(s=h0, st=start, en=end, sz=size,
                                          orp=orphan, ov=overlap)
        except BaseException:
            return None
        rows0 = ROW.findall(plain)
        if not rows0:
            return None
        window = (int(rows0[0][0]), int(rows0[-1][0]), int(rows0[-1][1]))
    seqkind = 'lazy' if seqkind.startswith('lazy') else 'iter'
    hook = ''
    if variant == 'reentrant':
        busy = []

        def hook():
            if busy:
                return ''
            busy.append(1)
            try:
                template(tkey)(s=make_seq('iter', 400)[1], rv=0,
                               st=max(start, 1) + 7, en=-1, sz=max(size, 1)
                               + 9, orp=orphan + 2, ov=0, hook='')
            except Exception:
                pass
            finally:
                busy.pop()
            return ''
    try:
        with cpu_limit(5.0):
            out = template(tkey)(s=handed, rv=0,
                                 st=start, en=end, sz=size, orp=orphan,
                                 ov=overlap, hook=hook)
    except Runaway:
        return 'no-termination', '%r: more than 20000 elements pulled' % case
    except CpuTimeout:
        return 'no-termination', '%r: more than 5 CPU-seconds' % case
    except Exception as e:
        return ('exception:%s' % type(e).__name__, '%r raised %r' % (case, e))
    if window is not None:
        first, last, step = window
    else:
        if out == 'EMPTY':
            if L == 0:
                return None
            return 'empty', '%r rendered EMPTY' % case
        rows = ROW.findall(out)
        if not rows:
            return 'unparsable', out[:200]
        items = [int(r[0]) for r in rows]
        first, last = items[0], items[-1]
        if items != list(range(first, last + 1)):
            return 'order', '%r displayed %r' % (case, items)
        step = int(rows[-1][1])
    if size >= 1:
        # a requested size is the look-ahead of the statement, whatever
        # step the implementation reports for the window
        step = size
    bound = last + step + orphan
    # elements actually produced (a probe that runs off the end of a
    # bounded sequence produces nothing)
    used = seq.pulled if seqkind == 'iter' else (
        seq.maxindex + 1 if L is None else min(seq.maxindex + 1, L))
    # an index probe that fails with IndexError is still a request, so the
    # lazy class is held to the bound itself, the iterator to what exists
    limit = bound if L is None else min(L, bound)
    if used > limit:
        # the previous-batch announcement needs to know whether element
        # start-1+overlap exists (known finding, see DESIGN #18)
        prev_probe = first - 1 + overlap
        if first > 1 and prev_probe > bound and used <= (
                prev_probe if L is None else min(L, prev_probe)):
            return ('excess-pull:previous-batch-probe',
                    '%r shows %d..%d, bound %d, pulled %d (previous batch '
                    'end %d is probed)' % (case, first, last, bound, used,
                                           prev_probe))
        return ('excess-pull', '%r shows %d..%d step %d: bound %d but %d '
                'elements pulled' % (case, first, last, step, bound, used))
    if seqkind == 'lazy' and seq.lens and (L is None or L > bound):
        return ('len-called', '%r: __len__ called %d times although the '
                'sequence is longer than the bound %d' % (case, seq.lens,
                                                          bound))
    return None


def nontrivial(case, bound_hint=None):
    L = case[0]
    return L is None or L > 8


def check_plain(L, seqkind):
    seq = Counting(L)
    src = iter(seq) if seqkind == 'iter' else (x for x in seq)
    try:
        out = template('plain')(s=src)
    except Exception as e:
        return 'plain-exception:%s' % type(e).__name__, repr(e)
    exp = ''.join('[%d|]' % i for i in range(1, L + 1))
    if out != exp:
        return 'plain-output', 'L=%d rendered %r' % (L, out[:200])
    if seq.pulled != L:
        return 'plain-pulls', 'L=%d pulled %d' % (L, seq.pulled)
    return None


WHOLE = [
    '<dtml-in s sort><dtml-var sequence-item></dtml-in>',
    '<dtml-in s reverse><dtml-var sequence-item></dtml-in>',
    '<dtml-in s size=2><dtml-var sequence-length></dtml-in>',
    '<dtml-in s size=2><dtml-if sequence-end><dtml-in next-batches mapping>'
    '<dtml-var batch-start-index></dtml-in></dtml-if></dtml-in>',
    '<dtml-in s size=3 start=40><dtml-var sequence-item></dtml-in>',
    '<dtml-in s size=2><dtml-var total-item missing=""></dtml-in>',
    '<dtml-in s size=2 reverse><dtml-var sequence-item></dtml-in>',
]


def check_whole(i, L):
    seq = Counting(L)
    try:
        with cpu_limit(5.0):
            template(WHOLE[i])(s=iter(seq))
    except (Runaway, CpuTimeout):
        return 'whole-no-termination', '%r on %d elements' % (WHOLE[i], L)
    except Exception:
        return None
    if seq.pulled > L:
        return 'whole-pulls', '%r pulled %d of %d' % (WHOLE[i], seq.pulled, L)
    return None


# ------------------------------------------------ refusals and early exits

_G = {}


def guarded_template(src, refuse):
    """A template whose item guard refuses the element at index `refuse`
    (the element is handed over by the sequence first, as with any guard)."""
    from DocumentTemplate import HTML
    from zExceptions import Unauthorized
    key = (src, refuse)
    if key not in _G:
        class Guarded(HTML):
            def guarded_getitem(self, ob, index):
                v = ob[index]
                if index == refuse:
                    raise Unauthorized('item %d' % index)
                return v

            def guarded_getattr(self, inst, name, default=_G):
                if default is _G:
                    return getattr(inst, name)
                return getattr(inst, name, default)
        _G[key] = Guarded(src)
    return _G[key]


def check_refused(case):
    """['refused', L, seqkind, start, size, orphan, refuse, skip] - a batch
    whose item guard refuses one element of the window: the pulls stay
    within the bound whether the rendering skips the element or fails."""
    _, L, seqkind, start, size, orphan, refuse, skip = case
    seq, handed = make_seq(seqkind, L)
    src = ('<dtml-in s start=%d size=%d orphan=%d%s>[<dtml-var sequence-item>]'
           '</dtml-in>' % (start, size, orphan,
                           ' skip_unauthorized' if skip else ''))
    t = guarded_template(src, refuse)
    try:
        with cpu_limit(5.0):
            out = ('text', t(s=handed))
    except Runaway:
        return 'no-termination:refused-item', '%r: more than 20000 elements ' \
            'pulled' % case
    except CpuTimeout:
        return 'no-termination:refused-item', '%r: 5 CPU-seconds' % case
    except Exception as e:
        out = ('raise', type(e).__name__)
    in_window = start - 1 <= refuse <= start + size - 2 and (
        L is None or refuse < L)
    if in_window and not skip and out[0] != 'raise' and (L is None or
                                                         start <= L):
        return 'refused-item-shown', '%r rendered %r' % (case, out)
    bound = start + size - 1 + size + orphan
    lazy = seqkind.startswith('lazy')
    used = (seq.maxindex + 1 if L is None else min(seq.maxindex + 1, L)) \
        if lazy else seq.pulled
    limit = bound if L is None else min(L, bound)
    if used > limit:
        return ('excess-pull:refused-item', '%r: bound %d but %d elements '
                'pulled (%r)' % (case, bound, used, out))
    if lazy and seq.lens and (L is None or L > bound):
        return ('len-called:refused-item', '%r: __len__ called' % case)
    return None


EXITS = {
    'return': '<dtml-in s>[<dtml-var sequence-item>]<dtml-if "_[\'sequence-'
              'item\'] == k"><dtml-return sequence-item></dtml-if></dtml-in>',
    'raise-caught': '<dtml-try><dtml-in s>[<dtml-var sequence-item>]'
                    '<dtml-if "_[\'sequence-item\'] == k"><dtml-raise '
                    'KeyError>k</dtml-raise></dtml-if></dtml-in>'
                    '<dtml-except KeyError>caught</dtml-try>',
    'raise': '<dtml-in s>[<dtml-var sequence-item>]<dtml-if "_[\'sequence-'
             'item\'] == k"><dtml-raise KeyError>k</dtml-raise></dtml-if>'
             '</dtml-in>',
}


def check_exit(case):
    """['exit', how, L, k, seqkind] - an unbatched loop left at element k
    (return / exception): every element is still pulled exactly once."""
    _, how, L, k, seqkind = case
    seq = Counting(L)
    src = iter(seq) if seqkind == 'iter' else (x for x in seq)
    try:
        with cpu_limit(5.0):
            template(EXITS[how])(s=src, k=k)
    except (Runaway, CpuTimeout):
        return 'no-termination:exit', repr(case)
    except Exception:
        pass
    if seq.pulled != L:
        return ('plain-pulls:early-exit', '%r: %d of %d elements pulled' % (
            case, seq.pulled, L))
    return None


R = dict(start=range(-1, 17), end=range(-1, 17), size=range(-1, 8),
         orphan=range(0, 5), overlap=range(0, 4))


def plan(tier, seed):
    lengths = [None] + (list(range(15)) if tier == 'thorough'
                        else [3, 9, 14])
    shards = []
    for L in lengths:
        for kind in ('iter', 'lazy'):
            for half in (0, 1):
                shards.append(dict(kind='enum', L=L, seqkind=kind, half=half))
    shards.append(dict(kind='plain'))
    for kind in SEQKINDS:
        shards.append(dict(kind='refused', seqkind=kind))
    shards.append(dict(kind='large'))
    for L in (None, 9, 14):
        for kind in SEQKINDS:
            if kind == 'lazy-nolen' and L is not None:
                continue
            shards.append(dict(kind='variants', L=L, seqkind=kind))
    return shards


def run_shard(shard):
    acc = Acc(ID, sample_every=7919)
    if shard['kind'] == 'plain':
        for L in range(0, 15):
            for k in ('iter', 'gen'):
                bad = check_plain(L, k)
                acc.case(['plain', L, k], L > 0, klass='unbatched',
                         distinct_by_construction=True)
                if bad:
                    acc.fail(bad[0], ['plain', L, k], bad[1])
            for how in sorted(EXITS):
                for k in range(1, L + 1):
                    for sk in ('iter', 'gen'):
                        case = ['exit', how, L, k, sk]
                        bad = check_exit(case)
                        acc.case(case, k < L, klass='unbatched-early-exit',
                                 distinct_by_construction=True)
                        if bad:
                            acc.fail(bad[0], case, bad[1])
            for i in range(len(WHOLE)):
                bad = check_whole(i, L)
                acc.case(['whole', i, L], False, klass='whole-sequence')
                if bad:
                    acc.fail(bad[0], ['whole', i, L], bad[1])
        return acc.result()
    if shard['kind'] == 'large':
        # windows and look-ahead batches of realistic page sizes
        for kind in SEQKINDS:
            for L in (None, 1000):
                if kind == 'lazy-nolen' and L is not None:
                    continue
                for start, size, orphan, overlap in itertools.product(
                        (-1, 1, 21, 301), (20, 52, 53, 60, 100, 250),
                        (0, 10), (0, 5)):
                    case = [L, start, -1, size, orphan, overlap, kind]
                    bad = check(case)
                    acc.case(case, True, klass='large-batches',
                             distinct_by_construction=True)
                    if bad:
                        acc.fail(bad[0] + ':large', case, bad[1])
        return acc.result()
    if shard['kind'] == 'refused':
        kind = shard['seqkind']
        for L in (None, 6, 40):
            if kind == 'lazy-nolen' and L is not None:
                continue
            for start, size, orphan, skip in itertools.product(
                    (1, 2, 5), (1, 3), (0, 2), (0, 1)):
                for refuse in range(0, start + 2 * size + 1):
                    case = ['refused', L, kind, start, size, orphan, refuse,
                            skip]
                    bad = check_refused(case)
                    acc.case(case, start - 1 <= refuse <= start + size - 2,
                             klass=['refused-item', 'producer:' + kind],
                             distinct_by_construction=True)
                    if bad:
                        acc.fail(bad[0], case, bad[1])
        return acc.result()
    L, kind = shard['L'], shard['seqkind']
    if shard['kind'] == 'variants':
        for variant in sorted(VARIANTS):
            for start, end, size, orphan, overlap in itertools.product(
                    (-1, 0, 1, 2, 5, 9), (-1, 0, 2, 6, 16), (-1, 0, 1, 3, 7),
                    (0, 1, 3), (0, 1, 2)):
                case = [L, start, end, size, orphan, overlap, kind, variant]
                bad = check(case)
                acc.case(case, nontrivial(case), klass=[
                    'variant:' + variant, 'producer:' + kind],
                    distinct_by_construction=True)
                if bad:
                    acc.fail(bad[0], case, bad[1])
        return acc.result()
    starts = list(R['start'])[shard['half']::2]
    for start, end, size, orphan, overlap in itertools.product(
            starts, R['end'], R['size'], R['orphan'], R['overlap']):
        case = [L, start, end, size, orphan, overlap, kind]
        bad = check(case)
        acc.case(case, nontrivial(case), klass='%s:%s' % (
            kind, 'unbounded' if L is None else 'bounded'),
            distinct_by_construction=True)
        if bad:
            acc.fail(bad[0], case, bad[1])
    return acc.result()


def replay(case):
    if case[0] == 'plain':
        return check_plain(case[1], case[2])
    if case[0] == 'whole':
        return check_whole(case[1], case[2])
    if case[0] == 'refused':
        return check_refused(case)
    if case[0] == 'exit':
        return check_exit(case)
    return check(case)
