"""C03 - html_quote / &dtml-name; output is exactly the HTML-escaped value.

Oracle: Python's html.escape(text, quote=True) and html.unescape (the
definition of "standard HTML escaping with quotes"); all insertion forms must
agree with it, hence with each other.
"""
import html
import random

from vf.engine import Acc, hyp_run, shrink_failures

ID = 'C03'
EXHAUSTIVE = ('thorough',)
RULE = ('(a) every Unicode code point except surrogates as a one-character '
        'value (thorough: all 1,112,064; quick: all below U+0800 plus a '
        'seeded sample) and all code points in chunks of 64 forwards and '
        'reversed, x every insertion form (entity, var html_quote by name / '
        'by expression, html_quote plus identity options, fmt=html-quote, '
        '&dtml.html_quote-x;, SSI and EPFS spellings, plain insertion); '
        '(b) Hypothesis strings over an alphabet dense in & < > " \' with '
        'entity look-alikes, multi-byte and astral characters; (c) the same '
        'texts as bytes in the template encoding; (d) non-string values. '
        'Non-trivial: value contains one of & < > " \' or is bytes with a '
        'non-ASCII character; distinct = distinct (value, form-set) hashes '
        '(single code points are distinct by construction).')
RULE += (
         'Also: insertion contexts with tainted / plain neighbours in '
         'the same body and inside a sub-template whose encoding '
         "differs from the page's. ")
RULE += ('Round 8: named special formats that are the identity on the value next to html_quote. ')
RULE += ('Round 9: the same value inserted plainly and quoted in one body. ')
ASSUMPTIONS = [
    'html.escape(str, quote=True) defines the expected text',
    'identity options are applied only when they are the identity on the value '
    'AND on its escaped form (lower on caseless text, spacify without "_", '
    'size >= len); upper is excluded: html_quote runs before upper in the '
    'fixed modifier order, so "&amp;" legitimately becomes "&AMP;"',
    'bytes values are only combined with forms that insert them directly '
    '(entity, html_quote, fmt=html-quote)',
]

SPECIAL = '&<>"\''
# forms compiled to the ('v', name, 'h') fast path of the renderer
SIMPLE = ('entity', 'var-hq', 'var-hq-name=', 'expr-hq', 'expr=-hq', 'ssi-hq',
          'epfs-hq', 'entity.hq')
_T = {}


# block bodies in which an insertion may stand (index 0 = top level)
CONTEXTS = {
    'H': ['%s', '<dtml-in one>%s</dtml-in>',
          '<dtml-in one size=1 orphan=0>%s</dtml-in>',
          '<dtml-in maps mapping>%s</dtml-in>',
          '<dtml-in one sort reverse prefix=p>%s</dtml-in>',
          '<dtml-in none>e<dtml-else>%s</dtml-in>',
          '<dtml-if t>%s<dtml-else>e</dtml-if>',
          '<dtml-if f>e<dtml-elif t>%s</dtml-if>',
          '<dtml-if f>e<dtml-else>%s</dtml-if>',
          '<dtml-unless f>%s</dtml-unless>', '<dtml-with o>%s</dtml-with>',
          '<dtml-with o only><dtml-with maps mapping>%s</dtml-with>'
          '</dtml-with>'[:0] + '<dtml-let q=t>%s</dtml-let>',
          '<dtml-try>%s<dtml-except>e</dtml-try>',
          '<dtml-try><dtml-var nosuch><dtml-except>%s</dtml-try>',
          '<dtml-try>%s<dtml-finally></dtml-try>',
          '<dtml-if t><dtml-in one><dtml-with o>%s</dtml-with></dtml-in>'
          '</dtml-if>',
          # neighbours in the same body: request data (tainted) and plain
          # insertions before / after; (source, output before, output after)
          ('&dtml-tq;|%s', '&lt;i&gt;|', ''),
          ('<dtml-var tq>%s', '&lt;i&gt;', ''),
          ('%s&dtml-tq;', '', '&lt;i&gt;'),
          ('<dtml-var tq html_quote>%s<dtml-var pl>', '&lt;i&gt;', '<b>'),
          ('<dtml-var pl>%s<dtml-var tq>', '<b>', '&lt;i&gt;'),
          ('<dtml-in one>&dtml-tq;%s</dtml-in>', '&lt;i&gt;', ''),
          # the insertion stands in a sub-template whose encoding differs
          # from the calling page's
          'SUB'],
    'S': ['%s', '%%(in one)[%s%%(in)]', '%%(if t)[%s%%(if)]',
          '%%(with o)[%s%%(with)]', '%%(in none)[e%%(else)[%s%%(in)]',
          ('%%(tq)s%s', '&lt;i&gt;', ''), 'SUB'],
}
CTX_NS = dict(one=[1], none=[], maps=[{}], t=1, f=0, pl='<b>')


class _O:
    pass


CTX_NS['o'] = _O()


def _tainted():
    from AccessControl.tainted import TaintedString
    return TaintedString('<i>')


CTX_NS['tq'] = _tainted()


class _InContext:
    """A template whose context adds known text around the insertion (or
    embeds it in a page of another encoding); calling it gives the
    insertion's own part of the output."""

    def __init__(self, t, pre='', post='', outer=None):
        self.t, self.pre, self.post, self.outer = t, pre, post, outer

    def __call__(self, **kw):
        if self.outer is not None:
            return self.outer(T=self.t, **kw)
        out = self.t(**kw)
        pre, post = self.pre, self.post
        if isinstance(out, str) and out.startswith(pre) and \
                out.endswith(post) and len(out) >= len(pre) + len(post):
            return out[len(pre):len(out) - len(post)]
        return out


def tmpl(kind, src, enc=None, ctx=0):
    from DocumentTemplate import HTML, String
    pre = post = ''
    sub = False
    if ctx:
        c = CONTEXTS[kind][ctx % len(CONTEXTS[kind])]
        if c == 'SUB':
            sub = True
        elif isinstance(c, tuple):
            src, pre, post = c[0] % src, c[1], c[2]
        else:
            src = c % src
    key = (kind, src, enc, sub)
    t = _T.get(key)
    if t is None:
        cls = String if kind == 'S' else HTML
        t = cls(src, encoding=enc) if enc else cls(src)
        if sub:
            other = 'latin-1' if enc in (None, 'utf-8') else 'utf-8'
            t = _InContext(t, outer=HTML('<dtml-var T>', encoding=other))
        elif pre or post:
            t = _InContext(t, pre, post)
        _T[key] = t
    return t


# (name, class, source, applicable(value_text))
FORMS = [
    ('entity', 'H', '&dtml-x;', None),
    ('var-hq', 'H', '<dtml-var x html_quote>', None),
    ('var-hq-name=', 'H', '<dtml-var name=x html_quote>', None),
    ('expr-hq', 'H', '<dtml-var "x" html_quote>', None),
    ('expr=-hq', 'H', '<dtml-var expr="x" html_quote>', None),
    ('ssi-hq', 'H', '<!--#var x html_quote-->', None),
    ('epfs-hq', 'S', '%(x html_quote)s', None),
    ('fmt', 'H', '<dtml-var x fmt=html-quote>', None),
    ('fmt-q', 'H', '<dtml-var x fmt="html-quote">', None),
    ('epfs-fmt', 'S', '%(x fmt=html-quote)s', None),
    ('entity.hq', 'H', '&dtml.html_quote-x;', None),
    ('hq-size', 'H', '<dtml-var x html_quote size=100000>', None),
    ('hq-size-etc', 'H', '<dtml-var x size=100000 etc="..." html_quote>',
     None),
    ('hq-missing', 'H', '<dtml-var x html_quote missing="m">', None),
    ('hq-null', 'H', '<dtml-var x null="n" html_quote>',
     lambda v: bool(v)),
    ('hq-lower', 'H', '<dtml-var x html_quote lower>',
     lambda v: v.lower() == v),
    ('hq-spacify', 'H', '<dtml-var x spacify html_quote>',
     lambda v: '_' not in v),
    ('entity.lower', 'H', '&dtml.html_quote.lower-x;',
     lambda v: v.lower() == v),
    ('hq-fmt-s', 'H', '<dtml-var x fmt="%s" html_quote>', None),
    # further modifiers that are the identity on the value and on its
    # escaped form (the escape sequences contain no quote, no '_', no run of
    # four digits and no line end)
    ('hq-sql', 'H', '<dtml-var x html_quote sql_quote>',
     lambda v: not any(c in v for c in "'\x00\x1a\r")),
    ('hq-commas', 'H', '<dtml-var x thousands_commas html_quote>',
     lambda v: not any(c.isdigit() for c in v)),
    ('hq-br', 'H', '<dtml-var x html_quote newline_to_br>',
     lambda v: '\n' not in v and '\r' not in v),
    ('hq-spacify-sql-lower', 'H',
     '<dtml-var x lower sql_quote spacify html_quote>',
     lambda v: v.lower() == v and '_' not in v and
     not any(c in v for c in "'\x00\x1a\r")),
    ('entity.sql', 'H', '&dtml.html_quote.sql_quote-x;',
     lambda v: not any(c in v for c in "'\x00\x1a\r")),
    # named special formats that are the identity on the value, together
    # with html_quote (written before and after it)
    ('hq-fmt-unquote', 'H', '<dtml-var x fmt=url-unquote html_quote>',
     lambda v: '%' not in v),
    ('hq-fmt-unquote-plus', 'H',
     '<dtml-var x html_quote fmt="url-unquote-plus">',
     lambda v: '%' not in v and '+' not in v),
    ('hq-fmt-sql', 'H', '<dtml-var x html_quote fmt=sql-quote>',
     lambda v: not any(c in v for c in "'\x00\x1a\r")),
    ('hq-fmt-commas', 'H', '<dtml-var x fmt=comma-numeric html_quote>',
     lambda v: not any(c.isdigit() for c in v)),
    ('hq-fmt-multi-line', 'H', '<dtml-var x fmt=multi-line html_quote>',
     lambda v: '\n' not in v and '\r' not in v),
    ('epfs-hq-fmt-unquote', 'S', '%(x fmt=url-unquote html_quote)s',
     lambda v: '%' not in v),
    ('expr-hq-fmt-sql', 'H', '<dtml-var "x" fmt="sql-quote" html_quote>',
     lambda v: not any(c in v for c in "'\x00\x1a\r")),
]
# (name, class, source, expected parts: 'P' plain value, 'Q' quoted value)
SAME_BODY = [
    ('plain-entity', 'H', '<dtml-var x>|&dtml-x;', ['P', '|', 'Q']),
    ('entity-plain', 'H', '&dtml-x; and <dtml-var x>', ['Q', ' and ', 'P']),
    ('plain-hq-plain', 'H', '<dtml-var x>,<dtml-var x html_quote>,'
     '<dtml-var name=x>', ['P', ',', 'Q', ',', 'P']),
    ('hq-plain-entity', 'H', '[<dtml-var name="x" html_quote>][<dtml-var x>]'
     '[&dtml-x;]', ['[', 'Q', '][', 'P', '][', 'Q', ']']),
    ('epfs-plain-hq', 'S', '%(x)s|%(x html_quote)s|%(x)s',
     ['P', '|', 'Q', '|', 'P']),
    ('ssi-hq-plain', 'H', '<!--#var x html_quote-->/<!--#var x-->',
     ['Q', '/', 'P']),
    ('in-body', 'H', '<dtml-in "(1, 2)"><dtml-var x>:&dtml-x;;</dtml-in>',
     ['P', ':', 'Q', ';', 'P', ':', 'Q', ';']),
    ('if-body', 'H', '<dtml-if "1">&dtml-x;=<dtml-var x></dtml-if>',
     ['Q', '=', 'P']),
]
PLAIN = [('plain', 'H', '<dtml-var x>'), ('plain-expr', 'H', '<dtml-var "x">'),
         ('plain-epfs', 'S', '%(x)s'), ('plain-ssi', 'H', '<!--#var x-->')]
BYTES_FORMS = ['entity', 'var-hq', 'expr-hq', 'fmt', 'entity.hq', 'hq-size',
               'hq-missing', 'ssi-hq', 'epfs-hq', 'hq-spacify', 'hq-sql',
               'hq-commas', 'hq-br', 'hq-lower', 'hq-spacify-sql-lower',
               'entity.sql']


def check_value(acc, v, forms=None, case_tag='str', count=True, ctx=0):
    """Render text value v through every applicable form."""
    exp = html.escape(v, quote=True)
    n = 0
    for name, kind, src, app in FORMS:
        if forms is not None and name not in forms:
            continue
        if app is not None and not app(v):
            continue
        n += 1
        try:
            out = tmpl(kind, src, None, ctx)(x=v, **CTX_NS)
        except Exception as e:
            acc.fail('exception:%s:%s' % (name, type(e).__name__),
                     ['str', v, ctx] if ctx else [case_tag, v, name], repr(e))
            continue
        if out != exp:
            acc.fail(classify(name, v, out, exp),
                     ['str', v, ctx] if ctx else [case_tag, v, name],
                     '%s of %r gave %r, expected %r' % (src, v[:60], out[:80],
                                                        exp[:80]))
        elif html.unescape(out) != v and '\r' not in v:
            acc.fail('unescape:%s' % name, [case_tag, v, name],
                     'unescape(%r) != %r' % (out[:80], v[:60]))
    # the same value inserted several times in one body, plainly and
    # quoted, with literal text only in between: every insertion is what it
    # is alone
    for name, kind, src, parts in SAME_BODY:
        n += 1
        want = ''.join(exp if p == 'Q' else v if p == 'P' else p
                       for p in parts)
        try:
            out = tmpl(kind, src)(x=v)
        except Exception as e:
            acc.fail('exception:%s:%s' % (name, type(e).__name__),
                     [case_tag, v, name], repr(e))
            continue
        if out != want:
            acc.fail('same-body:%s' % name, [case_tag, v, name],
                     '%s of %r gave %r, expected %r' % (src, v[:60], out[:90],
                                                        want[:90]))
    for name, kind, src in PLAIN:
        n += 1
        try:
            out = tmpl(kind, src)(x=v)
        except Exception as e:
            acc.fail('exception:%s:%s' % (name, type(e).__name__),
                     [case_tag, v, name], repr(e))
            continue
        if out != v:
            acc.fail('plain-changed:%s' % name, [case_tag, v, name],
                     '%s of %r gave %r' % (src, v[:60], out[:80]))
    return n


def classify(form, v, out, exp):
    """Bucket = form class + which special characters are mishandled."""
    wrong = ''
    for c in SPECIAL:
        if c in v and out.count(c) != exp.count(c):
            wrong += c
    if not wrong and '&amp;amp;' in out or '&amp;lt;' in out:
        wrong = 'double'
    path = 'simple' if form in SIMPLE else 'full'
    return 'escape:%s-path:%s' % (path, wrong or 'other')


ENCODINGS = ['utf-8', 'latin-1', 'cp1252', 'utf-16', 'cp500', 'utf-7',
             'utf-16-le', 'utf-32', 'shift_jis', 'cp037']


def check_bytes(acc, v, enc, ctx=0):
    try:
        b = v.encode(enc)
        if b.decode(enc) != v:
            return 0       # the codec does not round-trip this text
    except UnicodeError:
        return 0
    exp = html.escape(v, quote=True)
    n = 0
    for name, kind, src, app in FORMS:
        if name not in BYTES_FORMS:
            continue
        if app is not None and not app(v):
            continue
        n += 1
        case = ['bytes', v, enc, name] + ([ctx] if ctx else [])
        try:
            out = tmpl(kind, src, enc, ctx)(x=b, **CTX_NS)
        except Exception as e:
            acc.fail('bytes-exception:%s:%s' % (
                'simple' if name in SIMPLE else 'full',
                type(e).__name__), case, repr(e))
            continue
        if out != exp:
            path = 'simple' if name in SIMPLE else 'full'
            if isinstance(out, bytes):
                kindb = 'stays-bytes'
            elif out == html.escape(b.decode('latin-1'), quote=True):
                kindb = 'decoded-as-latin-1'
            else:
                kindb = 'wrong-text'
            acc.fail('bytes:%s-path:%s' % (path, kindb), case,
                     '%s (encoding=%s) of %r gave %r, expected %r' % (
                         src, enc, b[:40], out[:60], exp[:60]))
    return n


class Obj:
    def __init__(self, s):
        self.s = s

    def __str__(self):
        return self.s


def check_nonstring(acc, spec):
    kind, val = spec
    if kind == 'int':
        v = val
    elif kind == 'float':
        v = float(val)
    elif kind == 'obj':
        v = Obj(val)
    elif kind == 'list':
        v = list(val)
    text = str(v)
    exp = html.escape(text, quote=True)
    n = 0
    for name in ('entity', 'var-hq', 'expr-hq', 'fmt', 'hq-size',
                 'entity.hq'):
        kind_, src = [(k, s) for (f, k, s, a) in FORMS if f == name][0]
        n += 1
        try:
            out = tmpl(kind_, src)(x=v)
        except Exception as e:
            acc.fail('nonstring-exception:%s:%s' % (name, type(e).__name__),
                     ['nonstr', spec, name], repr(e))
            continue
        if out != exp:
            acc.fail('nonstring:' + classify(name, text, out, exp),
                     ['nonstr', spec, name],
                     '%s of %r gave %r expected %r' % (src, text[:50],
                                                       out[:60], exp[:60]))
    return n


def all_codepoints():
    return [c for c in range(0x110000) if not 0xD800 <= c <= 0xDFFF]


def plan(tier, seed):
    shards = []
    if tier == 'thorough':
        step = 0x110000 // 64 + 1
        for lo in range(0, 0x110000, step):
            shards.append(dict(kind='single', lo=lo, hi=min(lo + step,
                                                             0x110000)))
    else:
        shards.append(dict(kind='single', lo=0, hi=0x800))
        for i in range(4):
            shards.append(dict(kind='single-sample', seed=seed * 1000 + i,
                               n=5000))
    for i in range(8):
        shards.append(dict(kind='chunks', part=i, parts=8))
    n = 16 if tier == 'thorough' else 6
    per = 6000 if tier == 'thorough' else 900
    for i in range(n):
        shards.append(dict(kind='random', seed=seed * 1000 + 100 + i, n=per))
    return shards


def text_strategy():
    from hypothesis import strategies as st
    frag = st.sampled_from(
        list(SPECIAL) * 3 +
        ['&amp;', '&lt;', '&#x27;', '&#39;', '&quot;', '&gt;', '&', ';', '#',
         'a', 'Z', '_', ' ', '\n', '\t', '\r', '\x00', 'é', 'ß', 'İ', 'ǅ',
         '€', '中', ' ', '\U0001F600', '\U00010400', '\xa0', '\x85',
         '\x7f', '<b>', "'x'", '"y"', 'ﬁ'])
    dense = st.lists(frag, min_size=0, max_size=12).map(''.join)
    anytext = st.text(st.characters(blacklist_categories=('Cs',)),
                      max_size=20)
    return st.one_of(dense, dense, anytext)


def case_strategy():
    from hypothesis import strategies as st
    txt = text_strategy()
    return st.one_of(
        st.tuples(st.just('str'), txt, st.integers(0, 40)),
        st.tuples(st.just('bytes'), txt, st.sampled_from(ENCODINGS),
                  st.integers(0, 40)),
        st.tuples(st.just('nonstr'), st.one_of(
            st.tuples(st.just('int'), st.integers(-10 ** 12, 10 ** 12)),
            st.tuples(st.just('float'),
                      st.floats(allow_nan=False, allow_infinity=False)),
            st.tuples(st.just('obj'), txt),
            st.tuples(st.just('list'), st.lists(txt, max_size=3)))))


def run_case(acc, case, count=True):
    kind = case[0]
    if kind == 'str':
        v = case[1]
        n = check_value(acc, v, ctx=case[2] if len(case) > 2 else 0)
        nt = any(c in v for c in SPECIAL)
    elif kind == 'bytes':
        v, enc = case[1], case[2]
        n = check_bytes(acc, v, enc, case[3] if len(case) > 3 else 0)
        nt = any(c in v for c in SPECIAL) or any(ord(c) > 127 for c in v)
        if n == 0:
            return
    else:
        n = check_nonstring(acc, case[1])
        nt = any(c in str(case[1][1]) for c in SPECIAL)
    if count:
        acc.case(list(case), nt, klass='random:' + kind, n=n)


def run_shard(shard):
    acc = Acc(ID, sample_every=997)
    kind = shard['kind']
    if kind == 'single':
        for cp in range(shard['lo'], shard['hi']):
            if 0xD800 <= cp <= 0xDFFF:
                continue
            v = chr(cp)
            n = check_value(acc, v, case_tag='cp')
            acc.case(['cp', cp], v in SPECIAL, klass='single-codepoint', n=n,
                     distinct_by_construction=True)
            if cp < 0x100 or cp % 4099 == 0:
                for enc in ENCODINGS[:3]:
                    m = check_bytes(acc, v, enc)
                    if m:
                        acc.case(['cp-bytes', cp, enc],
                                 cp > 127 or v in SPECIAL,
                                 klass='single-codepoint-bytes', n=m,
                                 distinct_by_construction=True)
    elif kind == 'single-sample':
        rnd = random.Random(shard['seed'])
        for _ in range(shard['n']):
            cp = rnd.randrange(0x800, 0x110000)
            if 0xD800 <= cp <= 0xDFFF:
                continue
            n = check_value(acc, chr(cp), case_tag='cp')
            acc.case(['cp', cp], False, klass='single-codepoint-sample', n=n)
    elif kind == 'chunks':
        cps = all_codepoints()
        chunks = [cps[i:i + 64] for i in range(0, len(cps), 64)]
        for ch in chunks[shard['part']::shard['parts']]:
            v = ''.join(map(chr, ch))
            for vv in (v, v[::-1]):
                n = check_value(acc, vv, forms={
                    'entity', 'var-hq', 'expr-hq', 'fmt', 'entity.hq',
                    'hq-size', 'epfs-hq'}, case_tag='chunk')
                acc.case(['chunk', ch[0]], any(c in vv for c in SPECIAL),
                         klass='chunk64', n=n, distinct_by_construction=True)
    else:
        strat = case_strategy()
        hyp_run(strat, lambda c: run_case(acc, c), shard['n'], shard['seed'])

        def bucket_of(c):
            a = Acc(ID)
            run_case(a, c, count=False)
            return sorted(a.failures)[0] if a.failures else None
        shrink_failures(acc, strat, bucket_of, shard['seed'])
    return acc.result()


def replay(case):
    acc = Acc(ID)
    tag = case[0]
    if tag in ('cp', 'chunk', 'str') and len(case) == 3 and \
            isinstance(case[2], str):
        v = case[1]
        check_value(acc, v, forms={case[2]} if case[2] not in
                    [p[0] for p in PLAIN] else set())
    elif tag == 'bytes' and len(case) >= 4 and isinstance(case[3], str):
        check_bytes(acc, case[1], case[2], case[4] if len(case) > 4 else 0)
    elif tag == 'nonstr' and len(case) == 3:
        check_nonstring(acc, case[1])
    else:
        run_case(acc, case, count=False)
    if acc.failures:
        b = sorted(acc.failures)[0]
        return b, acc.failures[b]['msg']
    return None
