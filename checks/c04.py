"""C04 - tainted (untrusted) values are always HTML-escaped when inserted.

Oracle: non-interference on the marker '<': every '<' of the output must
belong to a '<br />' that newline_to_br inserted for a newline of the value;
plus "escaped once, not twice" against html.escape.
"""
import html
import itertools

from vf.engine import Acc

ID = 'C04'
EXHAUSTIVE = ('quick', 'thorough')
RULE = ('exhaustive: all 4096 subsets of the 12 value modifiers x {dtml-var '
        'by name, by expression, EPFS} x tainted carriers; subsets of size '
        '<= 2 x the marker "<T>" at every position of the carrier x entity '
        'forms; every special format, every attribute name of str / '
        'TaintedString as method format, %-formats, EPFS C-formats, each '
        'alone and combined with one modifier; size 0..len+2 x etc x '
        'modifier; null= / missing=; the stage product fmt= (every special '
        'format, method and %-formats) x C-style format (EPFS s / 40s / .60s '
        '/ r, or none) x modifier subsets (size <= 3 in quick, all 4096 in '
        'thorough) x size; every ordered pair and triple of modifiers (the '
        'written order).  Non-trivial: the option set contains at '
        'least one modifier / format that rewrites the string (anything but '
        'plain insertion).  Cases are distinct by construction.')
RULE += (
         'Identity formats (fmt="%s", s conversion) together with '
         'html_quote are escaped once. ')
RULE += ('Round 9: the equal plain text is rendered as trusted data first. ')
ASSUMPTIONS = [
    'literal template text and etc strings contain no "<"',
    'a rendering that raises contributes no output (allowed)',
    '"<br />" inserted by newline_to_br / fmt=multi-line is template-made '
    'markup, at most one per newline of the value, compared '
    'case-insensitively (upper may follow) and possibly cut by size',
]

MODS = ['html_quote', 'url_quote', 'url_quote_plus', 'url_unquote',
        'url_unquote_plus', 'newline_to_br', 'lower', 'upper', 'capitalize',
        'spacify', 'thousands_commas', 'sql_quote']
CARRIER = "12345 a_b%3Cc+d'e\nf %253C 9999.5 x"
MARK = '<T>'
SPECIAL_FORMATS = [
    'whole-dollars', 'dollars-and-cents', 'collection-length',
    'structured-text', 'sql-quote', 'html-quote', 'url-quote',
    'url-quote-plus', 'url-unquote', 'url-unquote-plus', 'multi-line',
    'comma-numeric', 'dollars-with-commas', 'dollars-and-cents-with-commas']

# fmt= stage of the pipeline product (None = no fmt attribute)
PIPE_FMTS = [None] + SPECIAL_FORMATS + ['upper', 'strip', 'rsplit',
                                       'casefold', 'title', '"%s"',
                                       '"%10s|"', '"[%r]"']
PIPE_CFORMATS = ['s', '40s', '.60s', 'r']

_T = {}


def values():
    return [CARRIER[:i] + MARK + CARRIER[i:] for i in range(len(CARRIER) + 1)]


def tmpl(kind, src):
    from DocumentTemplate import HTML, String
    t = _T.get((kind, src))
    if t is None:
        t = (String if kind == 'S' else HTML)(src)
        if len(_T) < 30000:
            _T[(kind, src)] = t
    return t


def source(form, opts):
    """opts: list of attribute strings, e.g. ['upper', 'size=3']."""
    o = ' '.join(opts)
    if form == 'name':
        return 'H', ('<dtml-var x %s>' % o) if o else '<dtml-var x>'
    if form == 'expr':
        return 'H', ('<dtml-var "x" %s>' % o) if o else '<dtml-var "x">'
    if form == 'ssi':
        return 'H', ('<!--#var x %s-->' % o) if o else '<!--#var x-->'
    if form == 'epfs':
        return 'S', ('%%(x %s)s' % o) if o else '%(x)s'
    if form.startswith('epfs:'):
        return 'S', ('%%(x %s)%s' % (o, form[5:])) if o else \
            '%%(x)%s' % form[5:]
    if form == 'entity':
        mods = [m for m in opts]
        if not mods:
            return 'H', '&dtml-x;'
        return 'H', '&dtml.%s-x;' % '.'.join(mods)
    raise ValueError(form)


def stray_lt(out, value, opts):
    """True when the output contains a '<' that is not template-made."""
    if not isinstance(out, str):
        out = str(out)
    low = out.lower()
    br = '<br />'
    etc = None
    for o in opts:
        if o.startswith('size='):
            etc = '...'
    for o in opts:
        if o.startswith('etc='):
            etc = o[4:].strip('"')
    if etc is not None and low.endswith(etc.lower()):
        body = low[:len(low) - len(etc)]
        for k in range(len(br) - 1, 0, -1):
            if body.endswith(br[:k]):
                low = body[:-k]
                break
    n = low.count(br)
    rest = low.replace(br, '')
    # each requested line-break option may insert one '<br />' per newline
    passes = sum(1 for o in opts
                 if o == 'newline_to_br' or o.replace('"', '') ==
                 'fmt=multi-line')
    return '<' in rest or n > value.count('\n') * passes


def render(form, opts, value):
    from AccessControl.tainted import TaintedString
    kind, src = source(form, opts)
    try:
        t = tmpl(kind, src)
    except Exception as e:
        return e, src
    # the same text was shown before as trusted data (equal to the tainted
    # value, and with the same hash): what was remembered for it, if
    # anything, is not the answer for request data
    try:
        t(x=str(value))
    except Exception:       # noqa: only the history matters
        pass
    try:
        return t(x=TaintedString(value)), src
    except Exception as e:          # noqa: an exception is not output
        return e, src


def culprit(form, opts, value):
    """ddmin-lite: a minimal sub-list of opts that still leaks."""
    cur = list(opts)
    changed = True
    while changed and len(cur) > 1:
        changed = False
        for o in list(cur):
            t = [x for x in cur if x != o]
            out, _ = render(form, t, value)
            if not isinstance(out, Exception) and stray_lt(out, value, t):
                cur = t
                changed = True
                break
    return cur


def norm_opt(o):
    if o.startswith('size='):
        return 'size'
    if o.startswith('etc='):
        return 'etc'
    return o


def check(acc, form, opts, value, rewriting=True):
    out, src = render(form, opts, value)
    case = [form, list(opts), value]
    acc.case(case, rewriting, klass=('exception' if isinstance(out, Exception)
                                     else 'rendered'),
             distinct_by_construction=True)
    if isinstance(out, Exception):
        return
    if stray_lt(out, value, opts):
        c = culprit(form, opts, value)
        fk = 'epfs-cformat' if form.startswith('epfs:') else (
            'entity' if form == 'entity' else 'var')
        bucket = 'leak:%s:%s' % (fk, '+'.join(sorted(norm_opt(o)
                                                      for o in c)) or 'plain')
        acc.fail(bucket, [form, c, value],
                 '%s with x=TaintedString(%r) rendered %r' % (
                     source(form, c)[1], value, str(out)[:200]))


def check_once(acc, form, opts, value):
    """html_quote requested on tainted data: escaped once, not twice."""
    out, src = render(form, opts, value)
    acc.case([form, list(opts), value, 'once'], True, klass='once-not-twice',
             distinct_by_construction=True)
    exp = html.escape(value, quote=True)
    if isinstance(out, Exception):
        acc.fail('once:exception:%s' % type(out).__name__,
                 [form, list(opts), value, 'once'], repr(out))
    elif out != exp:
        kind = 'double' if '&amp;' in out and '&amp;' not in exp or \
            '&amp;lt;' in out else 'other'
        acc.fail('once:%s:%s' % (kind, 'fmt' if any('fmt' in o for o in opts)
                                 else form),
                 [form, list(opts), value, 'once'],
                 '%s rendered %r, expected %r' % (src, out[:120], exp[:120]))


def method_names():
    from AccessControl.tainted import TaintedString
    return sorted(set(dir(str)) | set(n for n in dir(TaintedString)
                                      if not n.startswith('_')))


def plan(tier, seed):
    shards = []
    for r in range(0, 13):
        shards.append(dict(kind='subsets', r=r))
    shards.append(dict(kind='positions'))
    shards.append(dict(kind='formats', part=0))
    shards.append(dict(kind='formats', part=1))
    shards.append(dict(kind='size'))
    shards.append(dict(kind='once'))
    for m in MODS:
        shards.append(dict(kind='orders', first=m))
    for f in PIPE_FMTS:
        shards.append(dict(kind='pipeline', fmt=f,
                           rmax=3 if tier == 'quick' else 12))
    return shards


def run_shard(shard):
    acc = Acc(ID, sample_every=2003)
    vals = values()
    three = [vals[0], vals[len(vals) // 2 - 3], vals[-1]]
    kind = shard['kind']
    if kind == 'subsets':
        for mods in itertools.combinations(MODS, shard['r']):
            for form in ('name', 'expr', 'epfs'):
                for v in three:
                    check(acc, form, list(mods), v, rewriting=bool(mods))
    elif kind == 'positions':
        small = [()] + [(m,) for m in MODS] + \
            list(itertools.combinations(MODS, 2))
        for mods in small:
            for form in ('name', 'expr', 'epfs', 'ssi', 'entity'):
                for v in vals:
                    check(acc, form, list(mods), v, rewriting=bool(mods))
    elif kind == 'formats':
        fmts = ['fmt=%s' % f for f in SPECIAL_FORMATS]
        fmts += ['fmt=%s' % m for m in method_names()]
        fmts += ['fmt="%s!"', 'fmt="%10s"', 'fmt="%.3s"', 'fmt="%r"',
                 'fmt="%-50s|"', 'fmt="[%s"', 'fmt=""', 'fmt="%s%s"',
                 'fmt="%5.2s"', 'fmt="%c"', 'fmt="%d"']
        fmts = fmts[shard['part']::2]
        vs = [vals[0], vals[7], vals[19], vals[-1], MARK, '1234567' + MARK]
        for f in fmts:
            for v in vs:
                check(acc, 'name', [f], v)
                check(acc, 'expr', [f], v)
                check(acc, 'epfs', [f], v)
                for m in MODS:
                    check(acc, 'name', [f, m], v)
                check(acc, 'name', [f, 'size=9'], v)
                check(acc, 'name', [f, 'null=N'], v)
        if shard['part'] == 0:
            for cf in ['s', '10s', '.3s', '-60s', 'r', '5.2s', 'c', 'd', 'f',
                       '.4r']:
                for v in vs:
                    check(acc, 'epfs:' + cf, [], v)
                    for m in MODS:
                        check(acc, 'epfs:' + cf, [m], v)
                    check(acc, 'epfs:' + cf, ['size=7'], v)
                    check(acc, 'epfs:' + cf, ['fmt=upper'], v)
                    check(acc, 'epfs:' + cf, ['fmt=url-unquote'], v)
    elif kind == 'orders':
        # the order in which the options are written must not matter:
        # every ordered pair and triple of modifiers, entity form included
        first = shard['first']
        rest = [m for m in MODS if m != first]
        seqs = [(first, b) for b in rest] + \
            [(first, b, c) for b in rest for c in rest if b != c]
        for mods in seqs:
            for form in ('name', 'epfs', 'entity'):
                if form == 'entity' and len(mods) == 3:
                    continue
                for v in three:
                    check(acc, form, list(mods), v)
    elif kind == 'pipeline':
        f = shard['fmt']
        base = ['fmt=%s' % f] if f else []
        forms = ['name'] + ['epfs:' + c for c in PIPE_CFORMATS]
        for r in range(0, shard['rmax'] + 1):
            for mods in itertools.combinations(MODS, r):
                for form in forms:
                    for v in three:
                        check(acc, form, base + list(mods), v)
                    if r <= 1:
                        check(acc, form, base + list(mods) + ['size=30'],
                              three[1])
    elif kind == 'size':
        vs = [MARK + ' ab c', 'a ' + MARK + ' b', 'ab c' + MARK, 'a\n' + MARK,
              'x\n\ny ' + MARK + ' z', '%3C ' + MARK]
        for v in vs:
            for size in range(0, len(v) + 9):
                for etc in (None, '...', '', '>>', '&'):
                    for m in ([], ['html_quote'], ['upper'],
                              ['newline_to_br'], ['url_unquote'],
                              ['newline_to_br', 'upper'], ['spacify'],
                              ['thousands_commas']):
                        opts = list(m) + ['size=%d' % size]
                        if etc is not None:
                            opts.append('etc="%s"' % etc)
                        for form in ('name', 'expr', 'epfs'):
                            check(acc, form, opts, v)
        from AccessControl.tainted import TaintedString  # noqa
        for v in vs + ['', MARK]:
            for o in (['null=N'], ['missing=M'], ['null=N', 'missing=M'],
                      ['null=N', 'upper'], ['null=N', 'fmt=upper'],
                      ['null=N', 'fmt=url-unquote'],
                      ['null=""', 'thousands_commas']):
                for form in ('name', 'expr', 'epfs'):
                    if v:
                        check(acc, form, o, v)
    elif kind == 'once':
        for v in vals + [MARK, '<&>"\'', '&lt;' + MARK, 'a&b' + MARK]:
            for form, opts in (
                    ('name', ['html_quote']), ('expr', ['html_quote']),
                    ('epfs', ['html_quote']), ('ssi', ['html_quote']),
                    ('entity', []), ('entity', ['html_quote']),
                    ('name', ['fmt=html-quote']),
                    ('name', ['html_quote', 'size=10000']),
                    ('name', ['html_quote', 'missing=m']),
                    ('name', ['html_quote', 'null=n']),
                    ('name', ['fmt=html-quote', 'html_quote']),
                    ('name', []), ('expr', []), ('epfs', []),
                    ('name', ['size=10000']), ('name', ['fmt="%s"']),
                    ('epfs:s', ['html_quote']),
                    # formats that leave the text as it is, with html_quote
                    ('name', ['fmt="%s"', 'html_quote']),
                    ('expr', ['html_quote', 'fmt="%s"']),
                    ('ssi', ['fmt="%s"', 'html_quote']),
                    ('epfs:s', ['fmt="%s"', 'html_quote']),
                    ('epfs', ['fmt="%s"', 'html_quote']),
                    ('name', ['fmt="%s"', 'html_quote', 'size=10000']),
                    ('name', ['fmt="%s"', 'html_quote', 'null=n']),
                    ('name', ['fmt="%s"', 'fmt=html-quote'][:1] +
                     ['html_quote', 'missing=m']),
                    ('name', ['fmt="%.9999s"', 'html_quote']),
                    ('name', ['fmt="%0s"', 'html_quote'])):
                check_once(acc, form, opts, v)
    return acc.result()


def replay(case):
    acc = Acc(ID)
    if len(case) == 4 and case[3] == 'once':
        check_once(acc, case[0], case[1], case[2])
    else:
        check(acc, case[0], case[1], case[2])
    if acc.failures:
        b = sorted(acc.failures)[0]
        return b, acc.failures[b]['msg']
    return None
