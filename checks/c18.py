"""C18 - concurrent renders of one shared template give sequential results.

Schedules are owned by the harness (vf/sched.py): every placement of one
preemption, a sweep of two preemptions, and Hypothesis-drawn multi-segment
schedules for three threads.  Oracle: the sequential specification - each
thread's outcome equals the outcome of its call running alone on a fresh
copy of the template."""
import os

from vf import dtml, gen, harness
from vf.engine import Acc, hyp_run
from vf.values import World, build_ns

ID = 'C18'
RULE = ('templates: a fixed catalogue exercising every block tag and the '
        'shared compile-time objects (dtml-in with sort_expr / reverse_expr / '
        'batch parameters through variables, expressions, if caches, let, '
        'with, try, sub-templates, dtml-tree) plus Hypothesis-generated '
        'ones; threads get distinct namespaces (different sort specs, '
        'reverse flags, batch starts, truth values).  Schedules: (a) every '
        'placement of one preemption, both thread orders, with a pre-cooked '
        'template and with the first renders racing to compile it; every '
        'placement of three preemptions in the call / compile path '
        '(DT_String.py steps) of a small uncompiled template; (b) two '
        'preemptions on a stride; (c) Hypothesis-drawn schedules of up to 6 '
        'segments for 3 threads.  Non-trivial: the schedule preempts a '
        'thread inside cook/render while another thread then runs inside the '
        'same template object.  Distinct = (template, namespaces, schedule), '
        'enumerated schedules are distinct by construction.')
RULE += (
         'Also: returns through finally parts; two-preemption sweeps '
         'at block-tag lines and in the call path (DT_String.py) of a '
         'template rendered once before. ')
RULE += (
         'Tainted and plain threads; expression-typed raise failing in '
         'some threads. ')
RULE += ('Round 8: repeated structured-text format; nameless mutable expression values changed by the template. ')
RULE += ('Round 9: statistics asked twice; a second thread compiles while the first renders (two preemptions over the whole package). ')
RULE += ('Round 10: two-preemption sweeps on templates rendered to their end before; a sorting loop inside a loop. ')
ASSUMPTIONS = [
    'preemption happens at Python line granularity inside the package; '
    'races inside one line or inside C code of dependencies are not explored',
    'each thread result is compared with its own sequential run on a fresh '
    'template',
]


def pkg_dirs():
    import DocumentTemplate
    import TreeDisplay
    return (os.path.dirname(DocumentTemplate.__file__),
            os.path.dirname(TreeDisplay.__file__))


CATALOGUE = [
    '<dtml-in s3 sort_expr="sk"><dtml-var va><dtml-var xi>,</dtml-in>',
    '<dtml-in s3 sort_expr="sk" reverse_expr="rv"><dtml-var va>,</dtml-in>',
    '<dtml-in s3 reverse_expr="rv"><dtml-var xi>;</dtml-in>',
    '<dtml-in s3 sort_expr="sk" start=stt size=szz orphan=0>'
    '<dtml-var va>:<dtml-var sequence-number>,</dtml-in>',
    '<dtml-in s3 start=stt size=2><dtml-var xi>'
    '<dtml-if sequence-end>|<dtml-var next-sequence-start-number missing="-">'
    '</dtml-if></dtml-in>',
    '<dtml-if ct>T<dtml-var va><dtml-elif cf>F<dtml-else>E</dtml-if>'
    '<dtml-unless ct>U</dtml-unless>',
    '<dtml-let la=va lb="sk + \'!\'"><dtml-var la><dtml-var lb></dtml-let>',
    '<dtml-with oa><dtml-var va><dtml-var xo></dtml-with><dtml-var va>',
    '<dtml-try><dtml-var vb><dtml-except>caught <dtml-var error_type>'
    '</dtml-try>',
    '<dtml-var ta><dtml-var "sk"><dtml-var fa>',
    '<dtml-var "_.len(s3) + stt"><dtml-var "va[:1]">&dtml-va;',
    '<dtml-in s3 sort=va><dtml-if "xi > stt">x<dtml-else>y</dtml-if>'
    '</dtml-in>',
    '<dtml-in s3 sort_expr="sk" prefix=pp><dtml-var pp_index>'
    '<dtml-var va></dtml-in>',
    '<dtml-tree tq branches_expr="kids()"><dtml-var tpId></dtml-tree>',
    '<dtml-in s3 mapping="" sort_expr="sk"></dtml-in>'[:0] +
    '<dtml-in "s3" sort_expr="sk" reverse><dtml-var xi></dtml-in>',
    '<dtml-var va size=3 etc="~"><dtml-var sk upper>|'
    '<dtml-var va html_quote upper spacify><dtml-var sk fmt=capitalize>',
    '<dtml-in s3 sort="va/nocase"><dtml-var va>,</dtml-in>',
    '<dtml-in s3 sort="xi/cmp,va/nocase/desc" reverse_expr="rv">'
    '<dtml-var va><dtml-var xi>,</dtml-in>',
    '<dtml-try><dtml-var fe><dtml-except ValueError>V<dtml-except OSError>O'
    '<dtml-except>other</dtml-try>|<dtml-var va>',
    # request data next to plain data through formats and modifiers
    '<dtml-var tv thousands_commas>|<dtml-var tv fmt=casefold>|'
    '<dtml-var tv url_unquote upper>|<dtml-var tv size=20>',
    # the class of a raise computed by an expression that fails in some
    # threads only
    '<dtml-try><dtml-raise expr="[VfB][1 - ct]">m<dtml-var va></dtml-raise>'
    '<dtml-except VfA>A:<dtml-var error_value><dtml-except>other:'
    '<dtml-var error_type></dtml-try>',
    # a value returned from inside blocks, with finally parts on its way
    '<dtml-with oa><dtml-try><dtml-return va><dtml-finally><dtml-var sk>'
    '<dtml-var xo></dtml-try></dtml-with>',
    '<dtml-in s3><dtml-let la=va><dtml-if sequence-end><dtml-try>'
    '<dtml-return la><dtml-finally><dtml-var la></dtml-try></dtml-if>'
    '</dtml-let></dtml-in>tail',
    # everything a handler can see of the error is the thread's own
    '<dtml-try><dtml-var fe><dtml-except><dtml-var error_type>:'
    '<dtml-var error_value>:<dtml-var error_tb></dtml-try>',
    '<dtml-try><dtml-var fe>ok<dtml-except LookupError>L<dtml-var error_tb>'
    '<dtml-except>E<dtml-var error_value><dtml-var error_tb></dtml-try>',
    '<dtml-in s3><dtml-try><dtml-var fe><dtml-except>'
    '<dtml-var error_value>|<dtml-var error_tb></dtml-try></dtml-in>',
    '<dtml-try><dtml-raise KeyError><dtml-var sk></dtml-raise><dtml-except>'
    '<dtml-var error_value><dtml-var error_tb></dtml-try>',
    # an expensive format of the same text asked for more than once
    '<dtml-var sk fmt=structured-text>|<dtml-var va fmt=structured-text>|'
    '<dtml-var sk fmt=structured-text>',
    # values created by expressions without names, changed by the template
    '<dtml-let acc="[]"><dtml-in s3><dtml-call "acc.append(xi)"></dtml-in>'
    '<dtml-var "acc"></dtml-let>',
    # a sorting loop rendered once per element of an enclosing loop
    '<dtml-in s4><dtml-var xi>:<dtml-in s3 sort=va><dtml-var va>'
    '<dtml-var xi> </dtml-in>|</dtml-in>',
    # loop variables computed on demand (statistics) asked more than once
    '<dtml-in s4><dtml-var xi><dtml-if total-xi>y<dtml-else>n</dtml-if>,'
    '<dtml-if sequence-end><dtml-var total-xi>|<dtml-var max-xi>|'
    '<dtml-var count-va></dtml-if></dtml-in>',
    '<dtml-let d="{}" e="[1]"><dtml-call "d.update({sk: va})">'
    '<dtml-call "e.append(sk)"><dtml-var "_.len(d)">:<dtml-var "e">'
    '</dtml-let>',
]


def namespaces():
    from checks import c17
    pool = []
    for i, spec in enumerate(c17.POOL):
        ns = dict(spec)
        # per-thread values everywhere, also behind with-objects
        ns['oa'] = dict(t='obj', attrs=dict(va='⟦OA%d.va⟧' % i,
                                            xo='⟦OA%d.xo⟧' % i))
        ns['ma'] = dict(t='dict', items=dict(va='⟦MA%d.va⟧' % i,
                                             xm='⟦MA%d.xm⟧' % i))
        ns['tq'] = dict(t='tree', id='r', children=[
            dict(t='tree', id='a', children=[dict(t='tree', id='a1')]),
            dict(t='tree', id='b')])
        # request data (tainted) in some threads, plain text in the others
        ns['tv'] = dict(t='tainted', v='<b>T%d' % i) if i in (0, 2, 3) \
            else 'plain<%d>' % i
        ns['URL'] = 'http://h/p'
        ns['RESPONSE'] = dict(t='response')
        ns['expand_all'] = 1
        # a sequence that is empty for every other thread
        ns['sq'] = dict(t='list', items=[] if i % 2 else
                        ['q%d%d' % (i, k) for k in range(3)])
        pool.append(ns)
    return pool


POOL = namespaces()


def reset_global_state():
    """Before every schedule the module- and class-level mutable containers
    of the package are put back to their import-time content (vf/gstate.py)."""
    from vf import gstate
    gstate.restore()


def call_for(template, spec):
    world = World()
    ns = build_ns(spec, world, 'impl')

    def call():
        out = template(None, ns)
        return out if isinstance(out, str) else ['returned', repr(out)]
    return call


def sequential(src, syntax, spec):
    reset_global_state()
    t = harness.make_template(src, syntax)
    try:
        return ('ok', call_for(t, spec)())
    except Exception as e:
        return ('exc', type(e).__name__)


def run_schedule(src, syntax, specs, segments, cooked, only_files=None,
                 warm=None):
    from vf.sched import Sched
    reset_global_state()
    t = harness.make_template(src, syntax)
    if cooked:
        t.cook()
    if warm is not None:
        # the template has a history: it was rendered (alone) before
        try:
            call_for(t, POOL[warm])()
        except Exception:
            pass
    fns = [call_for(t, s) for s in specs]
    s = Sched(fns, segments, pkg_dirs(), only_files)
    res, steps = s.run()
    return res, steps, s.preempted_at


def judge(res, expected, preempted_at):
    for tid, (r, e) in enumerate(zip(res, expected)):
        if r != e:
            where = 'no-preemption'
            if preempted_at:
                p = preempted_at[0]
                where = '%s:%s' % (p[1], p[2])
            kind = 'exception' if r[0] == 'exc' else 'wrong-output'
            return ('thread-%s:preempted-in:%s' % (kind, where),
                    'thread %d got %r, alone it gets %r; preemptions at %r'
                    % (tid, r, e, preempted_at))
    return None


def sweep(acc, src, syntax, i, j, stride1=1, two=False, stride2=40,
          modes=(True, False), firsts=(0, 1)):
    """All single-preemption schedules of threads (ns i, ns j)."""
    specs = [POOL[i], POOL[j]]
    expected = [sequential(src, syntax, s) for s in specs]
    if all(e[0] == 'exc' for e in expected):
        # anti-vacuity: a catalogue template that fails in both threads
        # exercises nothing
        raise RuntimeError('catalogue template %r fails sequentially: %r'
                           % (src, expected))
    for cooked in modes:
        res, steps, _ = run_schedule(src, syntax, specs, [], cooked)
        bad = judge(res, expected, [])
        case = dict(src=src, syntax=syntax, ns=[i, j], segments=[],
                    cooked=cooked)
        acc.case(case, False, klass='baseline', distinct_by_construction=True)
        if bad:
            acc.fail(bad[0], case, bad[1])
            continue
        for first in firsts:
            other = 1 - first
            for p in range(1, steps[first], stride1):
                segs = [[first, p], [other, -1]]
                res, st, at = run_schedule(src, syntax, specs, segs, cooked)
                case = dict(src=src, syntax=syntax, ns=[i, j],
                            segments=segs, cooked=cooked)
                acc.case(case, True, klass=['one-preemption', 'cooked' if
                                            cooked else 'cook-race'],
                         distinct_by_construction=True)
                bad = judge(res, expected, at)
                if bad:
                    acc.fail(bad[0], case, bad[1])
            if two:
                for p in range(1, steps[first], stride2):
                    for q in range(1, steps[other], stride2):
                        segs = [[first, p], [other, q], [first, -1]]
                        res, st, at = run_schedule(src, syntax, specs, segs,
                                                   cooked)
                        case = dict(src=src, syntax=syntax, ns=[i, j],
                                    segments=segs, cooked=cooked)
                        acc.case(case, True, klass='two-preemptions',
                                 distinct_by_construction=True)
                        bad = judge(res, expected, at)
                        if bad:
                            acc.fail(bad[0], case, bad[1])


def check_case(case):
    specs = [POOL[k % len(POOL)] for k in case['ns']]
    expected = [sequential(case['src'], case['syntax'], s) for s in specs]
    segs = [list(s) for s in case['segments']
            if s[0] < len(specs)]
    res, steps, at = run_schedule(case['src'], case['syntax'], specs, segs,
                                  case['cooked'], case.get('only_files'),
                                  case.get('warm'))
    return judge(res, expected, at)


# small templates for which every placement of TWO preemptions is explored
# (both threads are then inside the same block at the same time)
TWO_PREEMPTION = [
    '<dtml-with oa only><dtml-var va>:<dtml-var xo></dtml-with>',
    '<dtml-with ma mapping><dtml-var va><dtml-with oa><dtml-var xo>'
    '</dtml-with></dtml-with>',
    '<dtml-in s3 prefix=pp size=2 start=stt><dtml-var pp_index>'
    '<dtml-var va></dtml-in>',
    '<dtml-let la=va lb=sk><dtml-if ct><dtml-var la></dtml-if><dtml-var lb>'
    '</dtml-let>',
]
COOK_FILES = ('DT_String.py',)


BLOCK_FILES = ('DT_With.py', 'DT_Let.py', 'DT_In.py', 'DT_InSV.py')


def two_preemption_sweep(acc, src, i, j, first, budget, files=None,
                         warm=None):
    """Every placement of two preemptions at lines of the block tags' own
    code (or of `files`): thread A stops inside a block, thread B stops
    inside the same block, A finishes, B finishes."""
    BLOCK_FILES = tuple(files) if files else globals()['BLOCK_FILES']
    specs = [POOL[i], POOL[j]]
    expected = [sequential(src, 'dtml', s) for s in specs]
    res, steps, _ = run_schedule(src, 'dtml', specs, [], True, BLOCK_FILES,
                                 warm)
    other = 1 - first
    total = max(1, steps[first] * steps[other])
    stride = 1
    while total // (stride * stride) > budget:
        stride += 1
    for p in range(1, steps[first], stride):
        for q in range(1, steps[other], stride):
            segs = [[first, p], [other, q], [first, -1]]
            res, st, at = run_schedule(src, 'dtml', specs, segs, True,
                                       BLOCK_FILES, warm)
            case = dict(src=src, syntax='dtml', ns=[i, j], segments=segs,
                        cooked=True, only_files=list(BLOCK_FILES))
            if warm is not None:
                case['warm'] = warm
            acc.case(case, True, klass='two-preemptions-in-blocks'
                     if not files else 'two-preemptions-in-call-path',
                     distinct_by_construction=True)
            bad = judge(res, expected, at)
            if bad:
                acc.fail(bad[0] + ':two-preemptions', case, bad[1])


def cook_race_sweep(acc, src, i, j, p1s, stride3=1, stride2=1):
    """Three preemptions while the first renders race to compile: thread B
    is stopped within its first steps (before it compiles), thread A runs p2
    steps, B runs p3 steps, A finishes, B finishes.  Steps are counted in
    DT_String.py only (the call / compile path), which keeps the space
    small enough to enumerate."""
    specs = [POOL[i], POOL[j]]
    expected = [sequential(src, 'dtml', s) for s in specs]
    res, steps, _ = run_schedule(src, 'dtml', specs, [], False, COOK_FILES)
    sa = steps[0]
    res, steps, _ = run_schedule(src, 'dtml', specs, [[1, -1]], False,
                                 COOK_FILES)
    sb = steps[1]
    for p1 in p1s:
        for p2 in range(1 + p1 % stride2, sa + 1, stride2):
            for p3 in range(1 + p2 % stride3, sb + 1, stride3):
                segs = [[1, p1], [0, p2], [1, p3], [0, -1]]
                res, st, at = run_schedule(src, 'dtml', specs, segs, False,
                                           COOK_FILES)
                case = dict(src=src, syntax='dtml', ns=[i, j], segments=segs,
                            cooked=False, only_files=list(COOK_FILES))
                acc.case(case, True, klass='cook-race-three-preemptions',
                         distinct_by_construction=True)
                bad = judge(res, expected, at)
                if bad:
                    acc.fail(bad[0] + ':cook-race', case, bad[1])


LOOP_VARS = ('<dtml-in sq><dtml-var sequence-number>=<dtml-var sequence-item>'
             ' <dtml-if sequence-even>e</dtml-if><dtml-else>none</dtml-in>|'
             '<dtml-var va>')


def cook_vs_render_sweep(acc, src, i, j, p1s, stride2=1):
    """Two preemptions around the first compilation: thread B is stopped
    within its first steps (it has seen that the template is not compiled,
    and has not compiled it yet), thread A compiles and renders up to its
    p2-th line anywhere in the package, B runs to its end (compiling the
    template once more), A finishes."""
    specs = [POOL[i], POOL[j]]
    expected = [sequential(src, 'dtml', s) for s in specs]
    res, steps, _ = run_schedule(src, 'dtml', specs, [], False, None)
    sa = steps[0]
    for p1 in p1s:
        for p2 in range(1 + p1 % stride2, sa + 1, stride2):
            segs = [[1, p1], [0, p2], [1, -1], [0, -1]]
            res, st, at = run_schedule(src, 'dtml', specs, segs, False, None)
            case = dict(src=src, syntax='dtml', ns=[i, j], segments=segs,
                        cooked=False)
            acc.case(case, True, klass='compile-while-rendering',
                     distinct_by_construction=True)
            bad = judge(res, expected, at)
            if bad:
                acc.fail(bad[0] + ':compile-while-rendering', case, bad[1])


CFG = None


def random_strategy():
    from hypothesis import strategies as st
    from checks import c17
    ast = c17.template_strategy()
    seg = st.tuples(st.integers(0, 2), st.integers(1, 600)).map(list)
    return st.fixed_dictionaries(dict(
        ast=ast, syntax=st.sampled_from(['dtml', 'epfs']),
        ns=st.lists(st.integers(0, 4), min_size=3, max_size=3, unique=True),
        segments=st.lists(seg, min_size=1, max_size=6),
        cooked=st.booleans()))


def plan(tier, seed):
    shards = []
    pairs = [(0, 1), (1, 2), (3, 0), (2, 4)]
    for k, src in enumerate(CATALOGUE):
        i, j = pairs[k % len(pairs)]
        for mode in (True, False):
            for first in (0, 1):
                shards.append(dict(kind='sweep', src=src, ns=[i, j],
                                   stride1=1, two=tier == 'thorough',
                                   modes=[mode], firsts=[first]))
        if tier == 'thorough':
            a, b = pairs[(k + 1) % len(pairs)]
            shards.append(dict(kind='sweep', src=src, ns=[a, b], stride1=1,
                               two=True))
    blocks = [c for c in CATALOGUE if '<dtml-with' in c or '<dtml-in' in c
              or '<dtml-let' in c]
    for k, src in enumerate(TWO_PREEMPTION + blocks):
        small = k >= len(TWO_PREEMPTION)
        for first in (0, 1):
            if small:
                shards.append(dict(kind='two-preemptions', src=src,
                                   ns=[(k + first) % 4, (k + first + 1) % 4],
                                   first=first, budget=600 if tier == 'quick'
                                   else 20000))
                continue
            shards.append(dict(kind='two-preemptions', src=src,
                               ns=[k % 4, (k + 1) % 4 + (1 if k == 3 else 0)],
                               first=first, budget=2500 if tier == 'quick'
                               else 60000))
            # ... and on a template that was rendered to its end before
            # (whatever a tag keeps from one rendering for the next)
            shards.append(dict(kind='two-preemptions', src=src,
                               ns=[k % 4, (k + 1) % 4 + (1 if k == 3 else 0)],
                               first=first, budget=700 if tier == 'quick'
                               else 60000, warm=(k + 2) % 4))
    # the call path itself (DT_String.py) of a template that was rendered
    # before
    for k, src in enumerate(TWO_PREEMPTION[:2] + ['<dtml-var va>|'
                                                  '<dtml-var sk>']):
        for first in (0, 1):
            shards.append(dict(kind='two-preemptions', src=src,
                               ns=[k % 4, (k + 1) % 4], first=first,
                               budget=2500 if tier == 'quick' else 60000,
                               files=list(COOK_FILES), warm=(k + 2) % 4))
    for p1 in range(1, 9):
        q = tier == 'quick'
        shards.append(dict(kind='cook-race', src='<dtml-var va>|'
                           '<dtml-var vn>', ns=[0, 1], p1s=[p1],
                           stride3=3 if q else 1, stride2=2 if q else 1))
        if tier == 'thorough':
            shards.append(dict(kind='cook-race', src=CATALOGUE[5],
                               ns=[1, 0], p1s=[p1], stride3=1))
    for p1 in range(1, 13 if tier == 'thorough' else 9):
        shards.append(dict(kind='cook-vs-render', src=LOOP_VARS, ns=[0, 1],
                           p1s=[p1], stride2=1))
        if tier == 'thorough':
            shards.append(dict(kind='cook-vs-render', src=CATALOGUE[-2],
                               ns=[2, 3], p1s=[p1], stride2=1))
    n = 60 if tier == 'quick' else 1500
    for i in range(4 if tier == 'quick' else 16):
        shards.append(dict(kind='random', seed=seed * 1000 + i, n=n))
    # longest first, so that the pool does not end on one long shard
    slow = ('<dtml-in s3><dtml-try>', 'dtml-tree', 'sort=va>', 'start=stt')
    shards.sort(key=lambda sh: 0 if any(x in sh.get('src', '')
                                        for x in slow) else 1)
    return shards


def run_shard(shard):
    acc = Acc(ID, sample_every=997)
    if shard['kind'] == 'two-preemptions':
        two_preemption_sweep(acc, shard['src'], shard['ns'][0],
                             shard['ns'][1], shard['first'], shard['budget'],
                             shard.get('files'), shard.get('warm'))
        return acc.result()
    if shard['kind'] == 'cook-race':
        cook_race_sweep(acc, shard['src'], shard['ns'][0], shard['ns'][1],
                        shard['p1s'], shard['stride3'],
                        shard.get('stride2', 1))
        return acc.result()
    if shard['kind'] == 'cook-vs-render':
        cook_vs_render_sweep(acc, shard['src'], shard['ns'][0],
                             shard['ns'][1], shard['p1s'], shard['stride2'])
        return acc.result()
    if shard['kind'] == 'sweep':
        sweep(acc, shard['src'], 'dtml', shard['ns'][0], shard['ns'][1],
              stride1=shard['stride1'], two=shard['two'],
              modes=shard.get('modes', (True, False)),
              firsts=shard.get('firsts', (0, 1)))
        return acc.result()
    strat = random_strategy()

    def one(c):
        src = dtml.print_ast(c['ast'], c['syntax'])[0]
        case = dict(src=src, syntax=c['syntax'], ns=c['ns'],
                    segments=c['segments'], cooked=c['cooked'])
        bad = check_case(case)
        acc.case(case, True, klass='random-3-threads')
        if bad:
            acc.fail(bad[0], case, bad[1])
    hyp_run(strat, one, shard['n'], shard['seed'])
    return acc.result()


def replay(case):
    return check_case(case)
