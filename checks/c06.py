"""C06 - compiling any source terminates and fails only with a located
ParseError.  Oracle: validity predicate over the outcome of cook()."""
import html
import os
import warnings
import re
import time
import traceback

from vf import dtml, gen
from vf.engine import Acc, CpuTimeout, cpu_limit, hyp_run, shrink_failures

ID = 'C06'
warnings.simplefilter('ignore', SyntaxWarning)   # from compiling soups
RULE = ('five generators for HTML and String templates: (1) soups of raw '
        'fragments and of complete open / close / continuation tags with '
        'known and unknown names and random attribute lists; (2) valid '
        'printed templates with one mutation (delete / duplicate / swap / '
        'truncate a tag, an attribute or a character) at every position; '
        '(3) valid templates truncated at every offset; (4) constructed-'
        'invalid sources, one family per grammar rule of the statement, and '
        'constructed-valid sources (printer output); (5) pumped inputs '
        'A^n M B^n for n = 6, 12, 24, 48 under a CPU-time guard; thorough '
        'adds coverage-guided fuzzing (atheris) of a token-table decoder.  '
        'Non-trivial: the source contains a complete tag opener and is '
        'rejected, or is a pumped input with n >= 24.  Distinct = hash of '
        'the source.')
RULE += (
         'Also: every invalid family inside comment / with / unless / '
         'let / in bodies; empty names with expr=. ')
RULE += (
         'End tags differing in letter case; start= names spelled with '
         'regex metacharacters. ')
RULE += ('Round 8: non-bindings at every position of dtml-let; attribute strings accepted by one tag transplanted to tags that do not accept them (same source, later compilation). ')
RULE += ('Round 9: expressions refused only by the byte-code compiler; continuation tags with nothing between them. ')
RULE += ('Round 10: attribute values that are not numbers (size=big) are no grammar errors. ')
ASSUMPTIONS = [
    'sources are <= 4 KB with nesting <= 60 (beyond that the recursive '
    'parser meets Python\'s recursion limit, a resource bound)',
    'a CPU budget of 5 s per compile (typical cost < 5 ms) and growth '
    'cpu(2n) <= 60 * cpu(n) stand in for "polynomial time"',
    'SyntaxError is accepted only when the source contains an explicit '
    'expr= / sort_expr= / reverse_expr= / branches_expr= attribute',
]

EXPLICIT_EXPR = re.compile(r'(?<![a-z_])(expr|sort_expr|reverse_expr|'
                           r'branches_expr)\s*=', re.I)
MSG = re.compile(r'\A(?P<mess>.*), for tag (?P<tag>.*?), on line '
                 r'(?P<line>\d+) of (?P<name>[^\n]*)\Z', re.S)
PKG = os.sep + 'DocumentTemplate' + os.sep
PKG2 = os.sep + 'TreeDisplay' + os.sep


def innermost_frame(exc):
    best = 'outside-package'
    for fs in traceback.extract_tb(exc.__traceback__):
        if PKG in fs.filename or PKG2 in fs.filename:
            best = '%s:%s' % (os.path.basename(fs.filename), fs.name)
    return best


def check_source(src, syntax, budget=5.0):
    """-> (verdict, detail) ; verdict in {'ok', 'parse-error', 'syntax-error'}
    or a violation bucket (string starting with '!')."""
    from DocumentTemplate import HTML, String
    from DocumentTemplate.DT_Util import ParseError
    cls = String if syntax == 'epfs' else HTML
    t0 = time.process_time()
    try:
        with cpu_limit(budget):
            t = cls(src)
            t.cook()
    except ParseError as e:
        return check_message(src, syntax, e)
    except SyntaxError as e:
        if EXPLICIT_EXPR.search(src):
            return 'syntax-error', ''
        return ('!escape:SyntaxError:%s' % innermost_frame(e),
                '%s source %r raised %r without an explicit expr= attribute'
                % (syntax, src, e))
    except CpuTimeout:
        return ('!cpu-timeout:%s' % syntax,
                '%s source of %d chars did not compile within %.0f '
                'CPU-seconds: %r' % (syntax, len(src), budget, src[:300]))
    except RecursionError as e:
        return 'recursion', ''
    except Exception as e:
        return ('!escape:%s:%s' % (type(e).__name__, innermost_frame(e)),
                '%s source %r raised %r' % (syntax, src, e))
    return 'ok', time.process_time() - t0


def check_message(src, syntax, e):
    msg = e.args[0] if e.args else ''
    if not isinstance(msg, str):
        return '!message:not-text', '%r: %r' % (src, e.args)
    m = MSG.match(msg)
    if not m:
        return ('!message:format', '%s source %r: ParseError message %r does '
                'not name a tag and a line' % (syntax, src, msg))
    tag = m.group('tag')
    if syntax != 'epfs':
        tag = html.unescape(tag)
    line = int(m.group('line'))
    if not tag or tag not in src:
        return ('!message:tag-not-in-source', '%s source %r: message names '
                'tag %r' % (syntax, src, tag))
    starts = [mm.start() for mm in re.finditer(re.escape(tag), src)]
    lines = {src.count('\n', 0, p) + 1 for p in starts}
    if line not in lines:
        which = 'off-by-one' if (line - 1 in lines or line + 1 in lines) \
            and src.count('\n') < 2 else 'other-line'
        return ('!message:line:%s' % which,
                '%s source %r: message %r says line %d but the tag starts '
                'on line(s) %r' % (syntax, src, msg[:200], line,
                                   sorted(lines)))
    return 'parse-error', msg


# ------------------------------------------------------------- generators

NAMES = ['var', 'if', 'in', 'with', 'let', 'try', 'unless', 'call', 'raise',
         'return', 'comment', 'else', 'elif', 'except', 'finally', 'tree',
         'foo', 'VAR', 'endif', 'i', 'if2']
ATTRS = ['x', 'name=x', 'expr="x"', '"x+1"', '"1+"', 'a=b', 'size=3',
         'orphan=1', 'overlap=2', 'start=1', 'end=2', 'previous', 'next',
         'mapping', 'only', 'sort=a', 'sort_expr="x"', 'sort_expr="("',
         'reverse', 'prefix=p', 'prefix="a-b"', 'prefix=1x', 'html_quote',
         'upper', 'fmt=x', 'null=""', 'missing=1', 'size=3 size=4',
         'x=1+', 'q="1+"', 'q=a', '"', '=', 'a=', '="x"', 'bogus', 'etc=..',
         'url', 'type=KeyError', 'KeyError', 'branches_expr="1+"',
         'branches=b', 'expr="x', 'a b c', 'x y', 'name=x name=y',
         'expr="a" expr="b"', 'no_push_item', 'skip_unauthorized',
         'reverse_expr="0"', 'capitalize lower', 'VfA VfB', 'leaves=l',
         'size=big', 'size=1.5', 'size=""', 'size=-1', 'start=x', 'etc=',
         'size', 'orphan=x', 'fmt=""', 'null', 'size="3 "',
         '\n', ' \n x', 'x\n']
RAW = ['<', '>', '<dtml-', '</dtml-', '<!--#', '-->', '&dtml-', '&dtml.',
       '&dtml', ';', '%(', ')s', ')[', ')]', ')', '"', "'", ' ', '\n',
       'x', 'if', 'var', 'end', '/', '=', 'a;', '.', '-', 'dtml', '%', '[',
       ']', '!', 'é', '\t', '&', '<d', '<!', '--', '#']


def tag_text(syntax, role, name, attrs):
    a = (' ' + ' '.join(attrs)) if attrs else ''
    if syntax == 'dtml':
        return ('</dtml-%s%s>' if role == 'close' else '<dtml-%s%s>') % (
            name, a)
    if syntax == 'ssi':
        return ('<!--#/%s%s-->' if role == 'close' else '<!--#%s%s-->') % (
            name, a)
    if role == 'close':
        return '%%(%s%s)]' % (name, a)
    if role == 'inline':
        return '%%(%s%s)s' % (name, a)
    return '%%(%s%s)[' % (name, a)


def soup_strategy():
    from hypothesis import strategies as st
    syntax = st.sampled_from(['dtml', 'ssi', 'epfs'])
    tag = st.tuples(st.sampled_from(['open', 'open', 'close', 'inline']),
                    st.sampled_from(NAMES),
                    st.lists(st.sampled_from(ATTRS), max_size=3))
    piece = st.one_of(tag, tag, tag, st.sampled_from(RAW),
                      st.sampled_from(['text', '\n', 'a\nb', ' ']))

    def mk(sx, pieces):
        out = []
        for p in pieces:
            if isinstance(p, tuple):
                out.append(tag_text(sx, p[0], p[1], p[2]))
            else:
                out.append(p)
        return dict(kind='soup', syntax=sx, src=''.join(out))
    tagsoup = st.builds(mk, syntax, st.lists(piece, min_size=1, max_size=9))
    rawsoup = st.builds(lambda sx, ps: dict(kind='soup', syntax=sx,
                                            src=''.join(ps)),
                        syntax, st.lists(st.sampled_from(RAW), min_size=1,
                                         max_size=14))
    return st.one_of(tagsoup, tagsoup, tagsoup, rawsoup)


VALID_CFG = gen.Config(kinds=['text', 'var', 'ent', 'call', 'if', 'unless',
                              'in', 'with', 'let', 'try', 'comment', 'raise',
                              'return', 'sub'],
                       max_depth=3, max_items=3, literals=False)


def valid_strategy():
    from hypothesis import strategies as st
    return st.fixed_dictionaries(dict(
        kind=st.just('valid'), ast=gen.template(VALID_CFG),
        style=gen.style(), syntax=st.sampled_from(['dtml', 'ssi', 'epfs'])))


def spans(toks):
    """Mutable units of a printed template: tags, attributes, characters."""
    units = []
    for t in toks:
        if t[0] == 'tag':
            units.append(('tag', t[2], t[3]))
            # attributes = blank-separated words inside the tag
            for m in re.finditer(r'[\x00- ]+([^\x00- ]+)', t[1]):
                units.append(('attr', t[2] + m.start(), t[2] + m.end()))
    return units


def mutations(src, toks, limit=400):
    """All single mutations at every position (bounded by limit)."""
    out = []
    units = spans(toks)
    for kind, a, b in units:
        out.append(('delete-' + kind, src[:a] + src[b:]))
        out.append(('duplicate-' + kind, src[:b] + src[a:b] + src[b:]))
        mid = (a + b) // 2
        out.append(('truncate-' + kind, src[:mid] + src[b:]))
    for (k1, a1, b1), (k2, a2, b2) in zip(units, units[1:]):
        if k1 == k2 == 'tag' and b1 <= a2:
            out.append(('swap-tag', src[:a1] + src[a2:b2] + src[b1:a2] +
                        src[a1:b1] + src[b2:]))
    step = max(1, len(src) // 120)
    for i in range(0, len(src), step):
        out.append(('delete-char', src[:i] + src[i + 1:]))
        out.append(('duplicate-char', src[:i] + src[i] + src[i:]))
    for i in range(0, len(src) - 1, step):
        out.append(('swap-char', src[:i] + src[i + 1] + src[i] + src[i + 2:]))
    for i in range(0, len(src) + 1, step):
        out.append(('truncate-at', src[:i]))
        out.append(('insert-quote', src[:i] + '"' + src[i:]))
    if len(out) > limit:
        stride = len(out) // limit + 1
        out = out[::stride]
    return out


def open_block_truncations(src, toks):
    """Cut a printed (valid) template after a token while blocks are open:
    -> [(cut source, [(tag text, line) of every start / continuation tag of
    the blocks that are open at the cut])]."""
    out = []
    stack = []          # one list of (text, line) per open block
    for t in toks:
        kind, text, a, b, info = t
        if kind == 'tag' and info:
            line = src.count('\n', 0, a) + 1
            if info[0] == 'open':
                stack.append([(text, line)])
            elif info[0] == 'cont' and stack:
                stack[-1].append((text, line))
            elif info[0] == 'close' and stack:
                stack.pop()
        if stack and kind == 'tag':
            out.append((src[:b], [x for blk in stack for x in blk]))
    return out


def check_unclosed(src, syntax, open_tags):
    """A source that only lacks end tags is rejected, and the message
    names (with its line) a tag of a block that is really left open."""
    from DocumentTemplate import HTML, String
    from DocumentTemplate.DT_Util import ParseError
    cls = String if syntax == 'epfs' else HTML
    try:
        with cpu_limit(5.0):
            cls(src).cook()
    except ParseError as e:
        v, d = check_message(src, syntax, e)
        if v.startswith('!'):
            return v, d
        m = MSG.match(e.args[0])
        tag = m.group('tag')
        if syntax != 'epfs':
            tag = html.unescape(tag)
        line = int(m.group('line'))
        if not any(text.strip() == tag.strip() and ln == line
                   for text, ln in open_tags):
            return ('!message:names-a-closed-block',
                    '%s source %r lacks the end tags of %r, but the message '
                    'is %r' % (syntax, src, open_tags, e.args[0][:200]))
        return 'parse-error', ''
    except (SyntaxError, RecursionError, CpuTimeout):
        return 'other', ''
    except Exception as e:
        return ('!escape:%s:%s' % (type(e).__name__, innermost_frame(e)),
                '%s source %r raised %r' % (syntax, src, e))
    return ('!invalid-accepted:missing-end-tag',
            '%s source %r compiled although %r are not closed' % (
                syntax, src, open_tags))


def invalid_families():
    """(rule, dtml source) - every one violates the tag grammar."""
    f = []

    def add(rule, *srcs):
        for s in srcs:
            f.append((rule, s))
    add('unknown-tag', '<dtml-foo>', 'a<dtml-foo x>b</dtml-foo>',
        '<dtml-elif x>', '<dtml-except>', '<dtml-finally>',
        '<dtml-in s><dtml-elif y></dtml-in>',
        '<dtml-if a><dtml-except></dtml-if>',
        '<dtml-with o><dtml-else></dtml-with>', '<dtml-VAR x>',
        # tag names are case-sensitive; these are spelled like the classes
        '<dtml-If x>a</dtml-if>', '<dtml-In s>a</dtml-in>',
        '<dtml-With o>a</dtml-with>', '<dtml-Let a=b>a</dtml-let>',
        '<dtml-Try>a<dtml-except>b</dtml-try>', '<dtml-Unless x>a'
        '</dtml-unless>', '<dtml-Raise KeyError>m</dtml-raise>',
        '<dtml-Var x>', '<dtml-Call x>', '<dtml-Return x>',
        '<dtml-Comment>c</dtml-comment>', '<dtml-Tree x>a</dtml-tree>',
        '<dtml-Else x>a</dtml-else>', '<dtml-IF x>a</dtml-IF>',
        '<dtml-if x>a<dtml-Else>b</dtml-if>')
    add('end-without-start', '<dtml-if x>a</dtml-IF>', '<dtml-in s>a</dtml-In>',
        '<dtml-with o>a</dtml-WITH>', '<dtml-if x>a<dtml-else>b</dtml-If>',
        '<dtml-let a=b>a</dtml-LET>', '<dtml-try>a<dtml-except>b</dtml-TRY>',
        '<dtml-in s><dtml-if x>a</dtml-If></dtml-in>')
    add('end-without-start', '</dtml-if>', 'text</dtml-in>x',
        '<dtml-var x></dtml-var>', '<dtml-if a></dtml-in></dtml-if>',
        '<dtml-if a></dtml-if></dtml-if>')
    add('missing-end', '<dtml-if x>abc', '<dtml-in s><dtml-var x>',
        '<dtml-if a><dtml-in s></dtml-if>', '<dtml-try>x<dtml-except>y',
        '<dtml-let a=b>', '<dtml-comment>x', '<dtml-with o>\n\n<dtml-if x>'
        '\n</dtml-with>')
    add('repeated-continuation',
        '<dtml-if a>1<dtml-else>2<dtml-else>3</dtml-if>',
        '<dtml-if a>1<dtml-else>2<dtml-elif b>3</dtml-if>',
        '<dtml-in s>1<dtml-else>2<dtml-else>3</dtml-in>',
        '<dtml-try>1<dtml-except>2<dtml-except>3</dtml-try>',
        '<dtml-try>1<dtml-else>2<dtml-except>3</dtml-try>',
        '<dtml-try>1<dtml-except>2<dtml-else>3<dtml-else>4</dtml-try>',
        '<dtml-try>1<dtml-finally>2<dtml-finally>3</dtml-try>',
        '<dtml-try>1<dtml-except>2<dtml-finally>3</dtml-try>',
        '<dtml-try>1<dtml-finally>2<dtml-else>3</dtml-try>',
        # the same with the optional name repeated on the else tag
        '<dtml-if a>1<dtml-else a>2<dtml-else>3</dtml-if>',
        '<dtml-if a>1<dtml-else a>2<dtml-else a>3</dtml-if>',
        '<dtml-if a>1<dtml-else>2<dtml-else a>3</dtml-if>',
        '<dtml-if a>1<dtml-else a>2<dtml-elif b>3</dtml-if>',
        '<dtml-if a>1<dtml-elif b>2<dtml-else>3<dtml-elif c>4</dtml-if>',
        '<dtml-if a>1<dtml-else>2<dtml-elif b>3<dtml-else>4</dtml-if>',
        '<dtml-in s>1<dtml-else s>2<dtml-else>3</dtml-in>',
        '<dtml-in s>1<dtml-else>2<dtml-else s>3</dtml-in>')
    add('unknown-attribute', '<dtml-var x foo=1>', '<dtml-var x bogus>',
        '<dtml-if x size=3>a</dtml-if>', '<dtml-in s bogus>a</dtml-in>',
        '<dtml-with o upper>a</dtml-with>', '<dtml-call x html_quote>',
        '<dtml-return x y>', '<dtml-unless x mapping>a</dtml-unless>',
        '<dtml-raise KeyError extra=1>m</dtml-raise>',
        '<dtml-try foo=1>a<dtml-except>b</dtml-try>')
    add('duplicate-attribute', '<dtml-var x size=1 size=2>',
        '<dtml-var x fmt=a fmt=b>', '<dtml-in s sort=a sort=b>x</dtml-in>',
        '<dtml-var x null="" null="n">', '<dtml-in s prefix=a prefix=b>x'
        '</dtml-in>',
        # attribute names are case-insensitive
        '<dtml-var x fmt=a FMT=b>', '<dtml-var x SIZE=1 size=2>',
        '<dtml-in s Sort=a sORT=b>x</dtml-in>',
        '<dtml-var x Null="" NULL="n">')
    add('missing-name', '<dtml-var>', '<dtml-if>a</dtml-if>',
        '<dtml-in>a</dtml-in>', '<dtml-with>a</dtml-with>', '<dtml-call>',
        '<dtml-unless>a</dtml-unless>', '<dtml-return>',
        '<dtml-var html_quote>'[:0] + '<dtml-var size=3>',
        '<dtml-raise>m</dtml-raise>', '<dtml-else>a</dtml-else>')
    add('contradictory-name-expr', '<dtml-var name=x expr="y">',
        '<dtml-var x expr="y">', '<dtml-var x name=y>',
        '<dtml-var "x" expr="y">', '<dtml-var "x" name=y>',
        '<dtml-if x expr="y">a</dtml-if>', '<dtml-in x name=y>a</dtml-in>',
        '<dtml-if a>1<dtml-elif b expr="c">2</dtml-if>',
        '<dtml-with x expr="y">a</dtml-with>',
        '<dtml-raise KeyError expr="ValueError">m</dtml-raise>',
        # a name that is given but empty is still a name
        '<dtml-var name="" expr="y">', '<dtml-if name="" expr="y">a</dtml-if>',
        '<dtml-in name="" expr="y">a</dtml-in>',
        '<dtml-raise type="" expr="ValueError">m</dtml-raise>',
        '<dtml-call expr="y" name="">', '<dtml-var expr="y" name>',
        '<dtml-with expr="y" name="">a</dtml-with>',
        '<dtml-unless name="" expr="y">a</dtml-unless>',
        '<dtml-return name="" expr="y">')
    add('batch-option-without-batch', '<dtml-in s orphan=1>a</dtml-in>',
        '<dtml-in s overlap=1>a</dtml-in>', '<dtml-in s previous>a</dtml-in>',
        '<dtml-in s next>a</dtml-in>',
        '<dtml-in s orphan=1 overlap=2 mapping>a</dtml-in>')
    add('non-simple-prefix', '<dtml-in s prefix="a-b">a</dtml-in>',
        '<dtml-in s prefix=1x>a</dtml-in>', '<dtml-in s prefix="a b">a'
        '</dtml-in>', '<dtml-in s prefix=é>a</dtml-in>',
        '<dtml-in s prefix=a.b>a</dtml-in>')
    add('bad-expression-shorthand', '<dtml-var "1+">', '<dtml-if "(">a'
        '</dtml-if>', '<dtml-let x="1+">a</dtml-let>',
        '<dtml-in "x y">a</dtml-in>', '<dtml-call "def">',
        '<dtml-let x="a b" y=c>a</dtml-let>')
    # expressions that the parser accepts and the byte-code compiler
    # refuses are bad expressions like any other
    add('bad-expression-shorthand', '<dtml-var "f(a=1, a=2)">',
        '<dtml-let f="lambda a, a: a">x</dtml-let>',
        '<dtml-with "(yield)">x</dtml-with>', '<dtml-call "await x">',
        '<dtml-if "x" ><dtml-elif "(yield x)">a</dtml-if>',
        '<dtml-in "[y for y in s if (y := 1)]">a</dtml-in>',
        '<dtml-var "f(**{}, *a)">', '<dtml-if "x := 1">a</dtml-if>',
        '<dtml-var "nonlocal_ if 1 else (yield)">',
        '<dtml-return "f(x for x in y, 1)">', '<dtml-unless "*a">u'
        '</dtml-unless>')
    # continuation tags with nothing between them
    add('repeated-continuation',
        '<dtml-try>a<dtml-else><dtml-else>c</dtml-try>',
        '<dtml-try>a<dtml-except>b<dtml-else><dtml-except>c</dtml-try>',
        '<dtml-try>a<dtml-except><dtml-else><dtml-else></dtml-try>',
        '<dtml-try><dtml-else>\n<dtml-except>c</dtml-try>',
        '<dtml-try><dtml-finally><dtml-finally></dtml-try>',
        '<dtml-try><dtml-finally><dtml-except></dtml-try>',
        '<dtml-try><dtml-except><dtml-except></dtml-try>',
        '<dtml-if a><dtml-else><dtml-else></dtml-if>',
        '<dtml-if a><dtml-else><dtml-elif b></dtml-if>',
        '<dtml-if a><dtml-else>\n<dtml-else>\n</dtml-if>',
        '<dtml-in s><dtml-else><dtml-else></dtml-in>',
        '<dtml-in s><dtml-else> \n<dtml-else>x</dtml-in>')
    add('malformed-attributes', '<dtml-var x =>', '<dtml-var x a="b>c">',
        '<dtml-let x>a</dtml-let>', '<dtml-let x= y>a</dtml-let>',
        '<dtml-var x "y">', '<dtml-in s "t">a</dtml-in>')
    # dtml-let takes bindings only (name=name or name="expression"):
    # anything else, at any position among the bindings, is malformed
    binds = ['a=b', 'c="d + 1"', 'e=a', 'g="\'x\'"']
    junk = ['xy', '"a"', 'mapping', 'c"a"', 'q=', '=b',
            'a =b', 'a= b']
    for n in (2, 3, 4):
        for pos in range(n):
            for j in junk:
                parts = binds[:n]
                parts[pos] = j
                add('malformed-let', '<dtml-let %s>a</dtml-let>'
                    % ' '.join(parts))
            parts = binds[:n]
            parts[pos] = parts[pos].replace('=', '', 1)
            add('malformed-let', '<dtml-let %s>a</dtml-let>'
                % ' '.join(parts))
    return f


def transplants():
    """(attribute string, sources of tags that accept it, sources of tags
    that do not): what one tag accepts says nothing about another tag."""
    def blk(tag, a):
        return '<dtml-%s %s>a</dtml-%s>' % (tag, a, tag)

    def one(tag, a):
        return '<dtml-%s %s>' % (tag, a)
    B, O = blk, one
    return [
        ('s mapping', [B('in', 's mapping'), B('with', 's mapping')],
         [O('var', 's mapping'), B('if', 's mapping'),
          B('unless', 's mapping'), O('call', 's mapping'),
          O('return', 's mapping')]),
        ('s size=3 orphan=1', [B('in', 's size=3 orphan=1')],
         [O('var', 's size=3 orphan=1'), B('if', 's size=3 orphan=1'),
          B('with', 's size=3 orphan=1')]),
        ('o only', [B('with', 'o only')],
         [B('in', 'o only'), O('var', 'o only'), B('if', 'o only')]),
        ('x html_quote', [O('var', 'x html_quote')],
         [B('if', 'x html_quote'), B('in', 'x html_quote'),
          B('with', 'x html_quote'), B('unless', 'x html_quote')]),
        ('x upper', [O('var', 'x upper')],
         [B('in', 'x upper'), B('if', 'x upper'), O('return', 'x upper')]),
        ('s sort=a', [B('in', 's sort=a'), B('tree', 's sort=a')],
         [O('var', 's sort=a'), B('if', 's sort=a'), B('with', 's sort=a')]),
        ('s prefix=p', [B('in', 's prefix=p')],
         [O('var', 's prefix=p'), B('with', 's prefix=p')]),
        ('x fmt=a', [O('var', 'x fmt=a')],
         [B('in', 'x fmt=a'), B('if', 'x fmt=a'), O('call', 'x fmt=a')]),
        ('s reverse', [B('in', 's reverse'), B('tree', 's reverse')],
         [O('var', 's reverse'), B('with', 's reverse'),
          B('unless', 's reverse')]),
        ('x missing=m', [O('var', 'x missing=m')],
         [B('if', 'x missing=m'), B('in', 'x missing=m')]),
        ('s skip_unauthorized', [B('in', 's skip_unauthorized'),
                                 B('tree', 's skip_unauthorized')],
         [O('var', 's skip_unauthorized'), B('with', 's skip_unauthorized')]),
        ('s no_push_item', [B('in', 's no_push_item')],
         [B('with', 's no_push_item'), O('var', 's no_push_item')]),
        ('x size=3 etc=e', [O('var', 'x size=3 etc=e')],
         [B('in', 'x size=3 etc=e'), B('if', 'x size=3 etc=e')]),
        ('a=b', [B('let', 'a=b')],
         [O('var', 'a=b'), B('if', 'a=b'), B('in', 'a=b')]),
        ('x nowrap', [B('tree', 'x nowrap')],
         [B('in', 'x nowrap'), O('var', 'x nowrap')]),
    ]


# bodies in which an invalid construct stays invalid: blocks without
# continuation tags, and a comment (whose body is compiled like any other)
WRAPPERS = ['<dtml-comment>%s</dtml-comment>', '<dtml-with o>%s</dtml-with>',
            'a<dtml-unless u>b%sc</dtml-unless>',
            '<dtml-let a=b><dtml-comment>%s</dtml-comment></dtml-let>',
            '<dtml-in s>\n<dtml-comment>\n%s\n</dtml-comment></dtml-in>']


def wrapped_invalid_families():
    for rule, src in invalid_families():
        for k, w in enumerate(WRAPPERS):
            yield rule + ':in-body', w % src


def valid_families():
    """Hand-written sources that use grammar the printer does not emit;
    every one is valid and must compile (in all three spellings)."""
    return [
        '<dtml-if x>a<dtml-else x>b</dtml-if>',
        '<dtml-if x>a<dtml-elif y>b<dtml-else x>c</dtml-if>',
        '<dtml-if x>a<dtml-elif y>b<dtml-elif z>c<dtml-else x>d</dtml-if>',
        '<dtml-in s>a<dtml-else s>b</dtml-in>',
        '<dtml-in s mapping>a<dtml-else s>b</dtml-in>',
        '<dtml-if x>a<dtml-else>b</dtml-if x>',
        '<dtml-else x>a</dtml-else>',
        '<dtml-unless x>a</dtml-unless>',
        '<dtml-try>a<dtml-except A B>b<dtml-except>c<dtml-else>d</dtml-try>',
        '<dtml-try>a<dtml-finally>b</dtml-try>',
        # what an attribute's value is, is not part of the tag grammar: a
        # size that is no number is found when the value is inserted
        '<dtml-var x size=big>', '<dtml-var x size=1.5 etc="..">',
        '<dtml-var x size="" etc="...">', '<dtml-var x size>',
        '<dtml-if a><dtml-var title size=big></dtml-if>',
        '<dtml-in s size=sz start=st orphan=orp overlap=ov>a</dtml-in>',
        '<dtml-var x fmt="%s">', '<dtml-var x fmt=%05d>',
        '<dtml-var x null="" missing="">', '<dtml-var name=x>',
        '<dtml-var expr="x">', '<dtml-var "x[0] + y.z">',
        '<dtml-in s start=st size=3 orphan=1 overlap=2 previous>a</dtml-in>',
        '<dtml-in s size=3 next>a</dtml-in>',
        # the batch start may name any variable, whatever characters its
        # name consists of
        '<dtml-in s start=^ size=2>a</dtml-in>',
        '<dtml-in s start="a^" size=2>a</dtml-in>',
        '<dtml-in s start="x\\" size=2>a</dtml-in>',
        '<dtml-in s start="a.b*(" size=2>a</dtml-in>',
        '<dtml-in s start="a]" size=2>a</dtml-in>',
        '<dtml-in s start=$ size=2>a</dtml-in>',
        '<dtml-in s start="?+{" size=2>a</dtml-in>',
        '<dtml-in s start="a|b" size=2 previous>a</dtml-in>',
        '<dtml-in s start="-" size=2 next>a</dtml-in>',
        '<dtml-in s sort=a,b/nocase/desc reverse prefix=p_1>a</dtml-in>',
        '<dtml-in "s" sort_expr="k" reverse_expr="r">a</dtml-in>',
        '<dtml-with o mapping only>a</dtml-with>',
        '<dtml-let a=b c="d + 1" e="\'x\'">a</dtml-let>',
        '<dtml-raise KeyError>msg</dtml-raise>',
        '<dtml-raise type=KeyError>msg</dtml-raise>',
        '<dtml-raise expr="KeyError">msg</dtml-raise>',
        '<dtml-return x>', '<dtml-call "x()">',
        '<dtml-comment>any <dtml-var x> thing</dtml-comment>',
        '<dtml-tree x branches=b sort=s reverse>a</dtml-tree>',
        '<dtml-tree branches_expr="b()" nowrap>a</dtml-tree>',
        'plain text with < & > % and &dtml; &dtml- ; <d <!-- %( )s',
        '<dtml-if a><dtml-if b><dtml-else b>x</dtml-if><dtml-else a>y'
        '</dtml-if>',
    ]


def translate(src, syntax):
    """Rewrite a dtml source into SSI / EPFS spelling (simple tags only)."""
    if syntax == 'dtml':
        return src
    out, pos = [], 0
    for m in re.finditer(r'<(/?)dtml-([a-zA-Z]+)((?:[^>"]|"[^"]*")*)>', src):
        out.append(src[pos:m.start()])
        end, name, args = m.groups()
        if syntax == 'ssi':
            out.append('<!--#%s%s%s-->' % ('/' if end else '', name, args))
        else:
            if end:
                out.append('%%(%s)]' % name)
            else:
                a = args
                if a.strip().startswith('"'):
                    a = ' ' + a          # leading "expr" needs two blanks
                out.append('%%(%s%s)[' % (name, a))
        pos = m.end()
    out.append(src[pos:])
    return ''.join(out)


PUMP = ['<dtml-if x>', '</dtml-if>', '<dtml-var x>', '&dtml-x;', '"', ' "',
        '<dtml-', '%(a ', 'b', '%(x)s', '<!--#if x-->', '<!--#/if-->',
        '<dtml-in s>', '</dtml-in>', '<dtml-else>', ' a=b', ' x="', '=',
        '<dtml-var x ', 'a"b" ', '%(if x)[', '%(if)]', '%(', ')', ' ',
        '<dtml-let ', 'a=b ', '"c" ', '&dtml.', 'a.', '-x;', '\n',
        '<dtml-var "', 'x+', '">', '%(x "', 'y" ', ')s', '<!--#var x ',
        '-->', '<dtml-with o>', '</dtml-with>', '<dtml-try>', '</dtml-try>',
        '<dtml-except>', '<dtml-comment>', '</dtml-comment>', 'a ', '.5',
        '%(x fmt=', '"%s"', '<', '>']


def pump_strategy():
    from hypothesis import strategies as st
    frag = st.lists(st.sampled_from(PUMP), min_size=1, max_size=3).map(
        ''.join)
    opt = st.one_of(st.just(''), frag)
    return st.fixed_dictionaries(dict(
        kind=st.just('pump'), pre=opt, a=frag, mid=opt,
        b=st.one_of(st.just(''), frag), post=opt,
        syntax=st.sampled_from(['dtml', 'epfs'])))


def strategy():
    from hypothesis import strategies as st
    return st.one_of(soup_strategy(), soup_strategy(), valid_strategy(),
                     pump_strategy())


# -------------------------------------------------------------- evaluation

def has_opener(src):
    return bool(dtml.HTML_OPENERS.search(src) or '%(' in src)


def run_case(case, acc=None):
    """-> list of (bucket, msg)"""
    fails = []
    kind = case['kind']
    if kind == 'soup':
        v, d = check_source(case['src'], case['syntax'])
        if acc is not None:
            acc.case(case, has_opener(case['src']) and v != 'ok',
                     klass='soup:' + (v if not v.startswith('!') else
                                      'violation'))
        if v.startswith('!'):
            fails.append((v[1:], d))
    elif kind == 'valid':
        sx = case['syntax']
        src, toks = dtml.print_ast(case['ast'], sx, dtml.Style(case['style']))
        v, d = check_source(src, sx)
        if acc is not None:
            acc.case(case, False, klass='valid:' + (
                v if not v.startswith('!') else 'violation'))
        if v.startswith('!'):
            fails.append((v[1:], d))
        elif v != 'ok':
            fails.append(('valid-rejected', '%s source %r (printer output) '
                          'was rejected: %s' % (sx, src, d)))
        if v == 'ok':
            for csrc, open_tags in open_block_truncations(src, toks)[:60]:
                v2, d2 = check_unclosed(csrc, sx, open_tags)
                if acc is not None:
                    acc.case(['unclosed', csrc, sx], True,
                             klass='unclosed:' + (v2 if not v2.startswith(
                                 '!') else 'violation'))
                if v2.startswith('!'):
                    fails.append((v2[1:], '[cut after a tag] ' + d2))
        for mk, msrc in mutations(src, toks):
            if len(msrc) > 4096:
                continue
            v, d = check_source(msrc, sx)
            if acc is not None:
                acc.case(['mut', msrc, sx], has_opener(msrc) and v != 'ok',
                         klass='mutation:' + (v if not v.startswith('!')
                                              else 'violation'))
            if v.startswith('!'):
                fails.append((v[1:], '[%s] %s' % (mk, d)))
    elif kind == 'pump':
        times = {}
        for n in (6, 12, 24, 48):
            src = case['pre'] + case['a'] * n + case['mid'] + \
                case['b'] * n + case['post']
            if len(src) > 4096:
                break
            v, d = check_source(src, case['syntax'])
            if acc is not None:
                acc.case(['pump', src, case['syntax']], n >= 24,
                         klass='pump-n%d:' % n + (
                             v if not v.startswith('!') else 'violation'))
            if v.startswith('!'):
                fails.append((v[1:], '[pumped n=%d] %s' % (n, d)))
                break
            if v == 'ok':
                times[n] = d
        for n in (12, 24):
            if n in times and 2 * n in times and times[2 * n] > 0.25 and \
                    times[2 * n] > 60 * max(times[n], 0.002):
                fails.append(('super-polynomial-growth:%s' % case['syntax'],
                              'cpu(n=%d)=%.3fs but cpu(n=%d)=%.3fs for '
                              '%r^n %r %r^n' % (n, times[n], 2 * n,
                                                times[2 * n], case['a'],
                                                case['mid'], case['b'])))
    return fails


def plan(tier, seed):
    n = 220 if tier == 'quick' else 4000
    shards = [dict(kind='random', seed=seed * 1000 + i, n=n)
              for i in range(14)]
    shards.append(dict(kind='families'))
    shards.append(dict(kind='nesting'))
    if tier == 'thorough' and os.path.exists(os.path.join(
            os.path.dirname(__file__), 'c06_fuzz.py')):
        for i in range(8):
            shards.append(dict(kind='atheris', seed=seed * 100 + i,
                               runs=250000, corpus=i % 2))
    return shards


def run_shard(shard):
    acc = Acc(ID, sample_every=499)
    kind = shard['kind']
    if kind == 'families':
        # the invalid families are compiled in a fresh process, and once
        # more after every valid family (i.e. every tag) has been compiled
        # in the same process: acceptance must not depend on that history
        def run_invalid(after):
            suffix = ':after-valid-templates' if after else ''
            for rule, src in invalid_families() + list(
                    wrapped_invalid_families()):
                for sx in ('dtml', 'ssi', 'epfs'):
                    s2 = translate(src, sx)
                    v, d = check_source(s2, sx)
                    case = dict(kind='family', rule=rule, src=s2, syntax=sx)
                    if after:
                        case['after_valid'] = True
                    acc.case(case, True, klass='invalid%s:%s' % (
                        '-after-valid' if after else '', rule),
                        distinct_by_construction=True)
                    if v.startswith('!'):
                        acc.fail(v[1:] + suffix, case, d)
                    elif v == 'ok':
                        acc.fail('invalid-accepted:%s%s' % (rule, suffix),
                                 case, '%s source %r violates the tag '
                                 'grammar (%s) but compiled%s' % (
                                     sx, s2, rule, ' once other templates '
                                     'had been compiled in the process'
                                     if after else ''))
                    elif v == 'syntax-error':
                        acc.fail('invalid-not-parse-error:%s' % rule, case,
                                 '%s source %r raised SyntaxError' % (sx,
                                                                      s2))
        run_invalid(False)
        for src in valid_families():
            for sx in ('dtml', 'ssi', 'epfs'):
                s2 = translate(src, sx)
                v, d = check_source(s2, sx)
                case = dict(kind='valid-family', src=s2, syntax=sx)
                acc.case(case, False, klass='valid-family',
                         distinct_by_construction=True)
                if v.startswith('!'):
                    acc.fail(v[1:], case, d)
                elif v != 'ok':
                    acc.fail('valid-rejected', case, '%s source %r is valid '
                             'but was rejected: %s' % (sx, s2, d))
        run_invalid(True)
        # an attribute string accepted by one tag, then given to a tag that
        # does not accept it: later in the same source, and in a later
        # compilation
        for attrs, good, bad in transplants():
            for sx in ('dtml', 'ssi', 'epfs'):
                for g in good:
                    g2 = translate(g, sx)
                    v, d = check_source(g2, sx)
                    case = dict(kind='valid-family', src=g2, syntax=sx)
                    acc.case(case, False, klass='transplant-accepting',
                             distinct_by_construction=True)
                    if v != 'ok':
                        acc.fail(v[1:] if v.startswith('!') else
                                 'valid-rejected', case,
                                 '%s source %r is valid but was rejected: '
                                 '%s' % (sx, g2, d))
                    for b in bad:
                        for how in ('same-source', 'later-compilation'):
                            b2 = translate(b, sx)
                            src = g2 + ' ' + b2 if how == 'same-source' \
                                else b2
                            v, d = check_source(src, sx)
                            case = dict(kind='family',
                                        rule='unknown-attribute', src=src,
                                        syntax=sx, prior=g2)
                            acc.case(case, True, klass='transplant:' + how,
                                     distinct_by_construction=True)
                            if v.startswith('!'):
                                acc.fail(v[1:] + ':transplant', case, d)
                            elif v == 'ok':
                                acc.fail(
                                    'invalid-accepted:unknown-attribute:'
                                    'after-a-tag-that-accepts-it', case,
                                    '%s source %r gives the attributes %r '
                                    'to a tag that does not accept them, but '
                                    'compiled (%s after %r)' % (
                                        sx, src, attrs, how, g2))
        return acc.result()
    if kind == 'nesting':
        # deep nesting / many attributes inside the documented domain
        for sx in ('dtml', 'ssi', 'epfs'):
            for depth in (10, 30, 60):
                for tagname in ('if x', 'in s', 'with o', 'try', 'let a=b'):
                    name = tagname.split()[0]
                    src = translate(
                        ('<dtml-%s>' % tagname) * depth + 'x' +
                        ('<dtml-except>' if name == 'try' else '') +
                        ('</dtml-%s>' % name) * depth, sx)
                    if name == 'try':
                        src = translate(
                            ('<dtml-try>' * depth) + 'x' +
                            ('<dtml-except>y</dtml-try>' * depth), sx)
                    v, d = check_source(src, sx)
                    case = dict(kind='soup', src=src, syntax=sx)
                    acc.case(case, True, klass='nesting-%d' % depth,
                             distinct_by_construction=True)
                    if v.startswith('!'):
                        acc.fail(v[1:], case, d)
                    elif v != 'ok':
                        acc.fail('valid-rejected', case,
                                 'nesting depth %d: %s %s' % (depth, v, d))
            attrs = ' '.join(['html_quote', 'upper', 'lower', 'size=3',
                              'etc=x', 'null=n', 'missing=m', 'spacify',
                              'url_quote', 'sql_quote', 'capitalize',
                              'newline_to_br', 'thousands_commas'])
            src = translate('<dtml-var x %s>' % attrs, sx)
            v, d = check_source(src, sx)
            acc.case(dict(kind='soup', src=src, syntax=sx), False,
                     klass='many-attributes')
            if v != 'ok':
                acc.fail('valid-rejected', dict(kind='soup', src=src,
                                                syntax=sx), str(d))
        return acc.result()
    if kind == 'atheris':
        from checks import c06_fuzz
        return c06_fuzz.run(acc, shard)
    strat = strategy()

    def one(case):
        for b, msg in run_case(case, acc):
            acc.fail(b, case, msg)
    hyp_run(strat, one, shard['n'], shard['seed'])

    def bucket_of(c):
        f = run_case(c)
        return f[0][0] if f else None
    shrink_failures(acc, strat, bucket_of, shard['seed'])
    return acc.result()


def replay(case):
    if case.get('kind') == 'valid-family':
        v, d = check_source(case['src'], case['syntax'])
        if v.startswith('!'):
            return v[1:], d
        return None if v == 'ok' else ('valid-rejected', str(d))
    if case.get('kind') == 'family':
        suffix = ''
        if case.get('after_valid'):
            suffix = ':after-valid-templates'
            for src in valid_families():
                for sx in ('dtml', 'ssi', 'epfs'):
                    check_source(translate(src, sx), sx)
        if case.get('prior'):
            suffix = ':after-a-tag-that-accepts-it'
            check_source(case['prior'], case['syntax'])
        v, d = check_source(case['src'], case['syntax'])
        if v.startswith('!'):
            return v[1:] + suffix, d
        if v == 'ok':
            return 'invalid-accepted:%s%s' % (case['rule'], suffix), \
                case['src']
        return None
    f = run_case(case)
    return f[0] if f else None
