"""C05 - security guards mediate every read of client data; '_' names stay
private.  Oracle: value non-interference - two renderings that differ only in
the values of guard-refused (or underscore) attributes / items must be
indistinguishable, and no refused value may occur in the output."""
import re
import itertools

from vf.engine import Acc, hyp_run, shrink_failures

ID = 'C05'
RULE = ('channel catalogue: one template per way DTML reads an attribute or '
        'item of client data (client lookup, with, with only, attribute '
        'access in expressions, _.getattr, _[..].a, item access on custom '
        'and built-in containers, dtml-in items incl. skip_unauthorized and '
        'batches, in mapping, sequence-var-x, first-/last-x, the ten '
        'statistics, sort= (one key, two keys, /func), sort_expr, fmt= '
        'methods, let / if / unless / call / return expressions, tree '
        'branches / id / url / sort / skip_unauthorized, sub-templates) x '
        'attribute class (public, guard-refused, underscore) x guard policy '
        '(refuse on every object / on some objects / refuse items by index) '
        'x guard supplied by an HTML subclass or no guard at all (underscore '
        'rule); every case is rendered twice with different values of the '
        'refused data.  Non-trivial: the case has >= 1 refused (object, '
        'name) or (sequence, index) reachable through the channel.  Cases '
        'are distinct by construction (the catalogue is enumerated '
        'completely in both tiers).  Second part (checks/c05_gen.py): '
        'Hypothesis-generated compositions - with / with only / in (batch, '
        'skip_unauthorized, prefix, no_push_item) / let / if / try / '
        'sub-templates nested to depth 3 around attribute, item, fmt= and '
        'entity reads over an object graph (o, s[i], lst[i], .child, '
        '.kids[j]) under a random policy refusing (role, index, attribute) '
        'and (sequence, index); rendered on two graphs that differ exactly '
        'in the values behind refused reads.  Non-trivial there: the guard '
        'actually refused >= 1 read during the rendering; distinct by the '
        'hash of (source, policy, client).')
RULE += (
         'Also: error messages are part of the outcome (scanned for '
         'refused data, compared between the builds), try channels '
         'rendering error_value, refused data in id / repr of the '
         'objects. ')
RULE += (
         'Slices in expressions; the harness guard refuses slices '
         'covering a refused element. ')
RULE += ('Round 8: class-defined attributes (method, property) refused per object; attributes of texts and numbers read in expressions under a guard that refuses them. ')
RULE += ('Round 9: the sort attribute looked up by name in the loop body. ')
ASSUMPTIONS = [
    'the guard is the documented extension point: guarded_getattr / '
    'guarded_getitem supplied by the template class',
    'benign hasattr-style probes through the guard are not reads; the raw '
    'guard log is evidence of coverage, not an oracle',
    'iterating a container inside an expression ([x for x in s]) has no '
    'template-level guard and is not an "item access" channel',
]


class P:
    """Client object."""

    def __init__(self, i, **kw):
        self.i = i
        self.__dict__.update(kw)

    def __repr__(self):
        # what the object is is part of its (possibly refused) data
        return '<P%d %s>' % (self.i, getattr(self, 'id', ''))

    # attributes defined by the class (a method, a property): the guard
    # decides per object, not per class
    def cmeth(self):
        return self.sec

    @property
    def cprop(self):
        return self.sec


class Seq:
    """Custom sequence (no get / keys)."""

    def __init__(self, name, items):
        self.name = name
        self.items = list(items)

    def __getitem__(self, i):
        return self.items[i]

    def __len__(self):
        return len(self.items)


class Map:
    """Custom mapping used through expressions d['k']."""

    def __init__(self, name, d):
        self.name = name
        self.d = dict(d)

    def __getitem__(self, k):
        return self.d[k]


class Resp:
    def setCookie(self, *a, **k):
        pass


_CLS = {}


def guarded_class():
    if 'G' in _CLS:
        return _CLS['G']
    from DocumentTemplate import HTML
    from zExceptions import Unauthorized
    mark = []

    class Guarded(HTML):
        deny_attr = frozenset()     # (object index or '*', name)
        deny_item = frozenset()     # (sequence name, index)
        log = None
        # a lenient guard does not itself refuse underscore names: then
        # that protection has to come from the engine
        lenient = False

        def guarded_getattr(self, inst, name, default=mark):
            if self.log is not None:
                self.log.append(('attr', repr(inst)[:12], name))
            if name[:1] == '_' and not self.lenient:
                raise Unauthorized(name)
            if isinstance(inst, (str, bytes, int, float)) and \
                    ('scalar', name) in self.deny_attr:
                # texts and numbers are client data like any other
                raise Unauthorized(name)
            i = getattr(inst, 'i', None) if isinstance(inst, P) else None
            if isinstance(inst, P) and (('*', name) in self.deny_attr or
                                        (i, name) in self.deny_attr):
                raise Unauthorized(name)
            try:
                return getattr(inst, name)
            except AttributeError:
                if default is not mark:
                    return default
                raise

        def guarded_getitem(self, ob, index):
            if self.log is not None:
                self.log.append(('item', type(ob).__name__, index))
            name = getattr(ob, 'name', None)
            if isinstance(ob, (list, tuple)):
                name = 'builtin'
            if isinstance(index, slice):
                # a slice is refused when it covers a refused element
                n = len(ob)
                for k in range(*index.indices(n)):
                    if (name, k) in self.deny_item or \
                            ('*', k) in self.deny_item:
                        raise Unauthorized('slice over item %d' % k)
                return ob[index]
            if (name, index) in self.deny_item or \
                    ('*', index) in self.deny_item:
                raise Unauthorized('item %r' % (index,))
            return ob[index]

    _CLS['G'] = Guarded
    return Guarded


def ac_classes():
    """Second configuration: security.RestrictedDTML with AccessControl's
    own policy; refusals are declared with <name>__roles__ = ()."""
    if 'AC' in _CLS:
        return _CLS['AC']
    from AccessControl.SecurityManagement import getSecurityManager
    from DocumentTemplate import HTML
    from DocumentTemplate.security import RestrictedDTML
    from ExtensionClass import Base

    class UnownedDTML(RestrictedDTML, HTML):
        def getOwner(self):
            return None

        def __call__(self, client=None, REQUEST={}, RESPONSE=None, **kw):
            security = getSecurityManager()
            security.addContext(self)
            try:
                return HTML.__call__(self, client, REQUEST, **kw)
            finally:
                security.removeContext(self)

    class AP(Base):
        """Public object whose plain attribute values are accessible."""
        __roles__ = None
        __allow_access_to_unprotected_subobjects__ = 1

        def __init__(self, i, **kw):
            self.i = i
            self.__dict__.update(kw)

        def __repr__(self):
            return '<P%d>' % self.i

    _CLS['AC'] = (UnownedDTML, AP, {})
    return _CLS['AC']


def ac_object(i, denied_names, **kw):
    U, AP, cache = ac_classes()
    key = tuple(sorted(denied_names))
    cls = cache.get(key)
    if cls is None:
        cls = type('AP_' + '_'.join(key), (AP,),
                   {n + '__roles__': () for n in key})
        cache[key] = cls
    return cls(i, **kw)


def secret(run, tag, numeric=False, order=0):
    if numeric:
        return (100 if run == 'A' else 7000) + order * (1 if run == 'A'
                                                        else -13)
    return 'SECRET-%s-%s' % (run, tag)


def objects(run, n=4, numeric=False, make=None):
    """n client objects; 'sec' / '_prv' differ between the two runs (also in
    relative order, so that a sort by them differs)."""
    out = []
    make = make or (lambda i, **kw: P(i, **kw))
    for i in range(n):
        order = i if run == 'A' else (n - i) * 3 % 7
        out.append(make(
            i, pub='PUB%d' % i, idn=i, id=secret(run, 'i%d' % i),
            sec=secret(run, 's%d' % i, numeric, order)
            if numeric else ('%d-' % order) + secret(run, 's%d' % i),
            _prv=secret(run, 'p%d' % i, numeric, order)
            if numeric else ('%d-' % order) + secret(run, 'p%d' % i),
            grp='g%d' % (i // 2), num=i * 10,
            sgrp=('x', 'x', 'y', 'y', 'x')[i % 5] if run == 'A'
            else ('x', 'y', 'y', 'x', 'y')[i % 5],
            _pgrp=('x', 'x', 'y', 'y', 'x')[i % 5] if run == 'A'
            else ('x', 'y', 'y', 'x', 'y')[i % 5],
            meth=lambda i=i: 'METH%d' % i,
            secmeth=(lambda v=secret(run, 'm%d' % i): v)))
    return out


def tree_nodes(run):
    def node(i, kids=()):
        n = P(i, pub='PUB%d' % i, idn=i, sec=secret(run, 't%d' % i),
              sid=secret(run, 'id%d' % i).replace('SECRET', 'SECID'),
              surl=secret(run, 'u%d' % i),
              skey=(i if run == 'A' else 9 - i),
              _prv=(i if run == 'A' else 9 - i))
        n.kidlist = list(kids)
        n.tpValues = lambda n=n: n.kidlist
        n.seckids = lambda n=n: n.kidlist
        n.tpId = lambda i=i: 'n%d' % i
        n.tpURL = lambda i=i: 'u%d' % i
        return n
    return node(0, [node(1, [node(3), node(4)]), node(2, [node(5)])])


# channel: (name, source, needs, attribute-class it reads, options)
#   source uses {A} for the attribute name under test
def channels():
    ch = []

    def add(name, src, kind='attr', **kw):
        ch.append(dict(name=name, src=src, kind=kind, **kw))
    add('client-lookup', '[<dtml-var {A} missing="-">|<dtml-var pub>]',
        client=True)
    add('client-tuple', '[<dtml-var {A} missing="-">|<dtml-var pub>]',
        client='tuple')
    add('with', '[<dtml-with o><dtml-var {A} missing="-">|<dtml-var pub>'
        '</dtml-with>]')
    add('with-only', '[<dtml-with o only><dtml-var {A} missing="-">|'
        '<dtml-var pub></dtml-with>]')
    add('expr-attr', '[<dtml-var "o.{A}">|<dtml-var "o.pub">]', expr=True)
    # _.getattr / _.hasattr are AccessControl's own guarded functions: they
    # consult the AccessControl security policy, not the template's guard
    add('expr-getattr', '[<dtml-var "_.getattr(o, \'{A}\')">|'
        '<dtml-var "o.pub">]', ac_mediated=True)
    add('expr-getattr-default', '[<dtml-var "_.getattr(o, \'{A}\', \'d\')">|'
        '<dtml-var "o.pub">]', ac_mediated=True)
    add('expr-hasattr', '[<dtml-var "_.hasattr(o, \'{A}\')">|'
        '<dtml-var "o.pub">]', truth_only=True, ac_mediated=True)
    add('expr-ns-attr', '[<dtml-var "_[\'o\'].{A}">|<dtml-var "o.pub">]',
        expr=True)
    add('let-expr', '[<dtml-let q="o.{A}"><dtml-var q></dtml-let>|'
        '<dtml-var "o.pub">]', expr=True)
    add('if-expr', '[<dtml-if "o.{A}">yes<dtml-else>no</dtml-if>|'
        '<dtml-var "o.pub">]', expr=True)
    add('unless-expr', '[<dtml-unless "o.{A} == 1">u</dtml-unless>|'
        '<dtml-var "o.pub">]', expr=True)
    add('call-expr', '[<dtml-call "o.{A}">|<dtml-var "o.pub">]', expr=True)
    add('expr-attr-try', '[<dtml-try><dtml-var "o.{A}"><dtml-except>'
        '<dtml-var error_type>:<dtml-var error_value></dtml-try>|'
        '<dtml-var "o.pub">]', expr=True)
    add('with-try', '[<dtml-try><dtml-with o><dtml-var {A}></dtml-with>'
        '<dtml-except><dtml-var error_type>:<dtml-var error_value>'
        '</dtml-try>|<dtml-var "o.pub">]')
    add('return-expr', '[<dtml-var "o.pub"><dtml-return "o.{A}">]',
        expr=True)
    add('in-expr', '[<dtml-in "(o.{A},)"><dtml-var sequence-item></dtml-in>'
        '|<dtml-var "o.pub">]', expr=True)
    add('fmt-method', '[<dtml-var o fmt={A}>|<dtml-var "o.pub">]',
        attrs=('meth', 'secmeth', '_prv'))
    # attributes of texts and numbers read inside expressions
    add('expr-str-method', '[<dtml-var "o.pub.{A}()">|<dtml-var "o.pub">]',
        kind='scalar', attrs=('strip', 'swapcase'))
    add('expr-str-method-let', '[<dtml-let q="o.pub.{A}"><dtml-var "q()">'
        '</dtml-let>|<dtml-var "o.pub">]', kind='scalar',
        attrs=('strip', 'swapcase'))
    add('expr-str-format', '[<dtml-var "\'{0}-{0}\'.{A}(o.pub)">|'
        '<dtml-var "o.pub">]', kind='scalar', attrs=('format', 'format'))
    add('expr-int-method', '[PUB<dtml-var "o.num.{A}()">|<dtml-var "o.pub">]',
        kind='scalar', attrs=('bit_length', 'conjugate'))
    add('expr-int-attr', '[PUB<dtml-var "o.num.{A}">|<dtml-var "o.pub">]',
        kind='scalar', attrs=('real', 'numerator'))
    add('expr-str-method-in', '[<dtml-in s><dtml-var "_[\'sequence-item\']'
        '.pub.{A}()">;</dtml-in>]', kind='scalar',
        attrs=('strip', 'swapcase'))
    add('in-pushed-item', '[<dtml-in s><dtml-var {A} missing="-">,'
        '<dtml-var pub>;</dtml-in>]')
    add('in-item-attr-expr', '[<dtml-in s><dtml-var "_[\'sequence-item\'].'
        '{A}">;</dtml-in>]', expr=True)
    add('sequence-var', '[<dtml-in s><dtml-var sequence-var-{A}>,'
        '<dtml-var pub>;</dtml-in>]')
    add('first-last', '[<dtml-in s><dtml-if first-{A}>F</dtml-if>'
        '<dtml-if last-{A}>L</dtml-if><dtml-var pub>;</dtml-in>]',
        grouped=True)
    for stat in ('total', 'min', 'max', 'mean', 'median', 'variance',
                 'standard-deviation', 'count'):
        add('statistics-' + stat, '[<dtml-in s><dtml-if sequence-end>'
            '<dtml-var %s-{A}></dtml-if></dtml-in>|<dtml-var "o.pub">]'
            % stat, numeric=True, stat=stat)
    add('sort-key', '[<dtml-in s sort={A}><dtml-var pub>;</dtml-in>]',
        order=True)
    add('sort-two-keys', '[<dtml-in s sort=grp,{A}><dtml-var pub>;'
        '</dtml-in>]', order=True)
    add('sort-func', '[<dtml-in s sort={A}/cmp/desc><dtml-var pub>;'
        '</dtml-in>]', order=True)
    add('sort-expr', '[<dtml-in s sort_expr="\'{A}\'"><dtml-var pub>;'
        '</dtml-in>]', order=True)
    add('sort-batched', '[<dtml-in s sort={A} size=2><dtml-var pub>;'
        '</dtml-in>]', order=True)
    # the attribute a loop is sorted by, looked up as a name in its body
    add('sort-then-show', '[<dtml-in s sort={A}><dtml-var {A} missing="-">;'
        '</dtml-in>]')
    add('sort-expr-then-show', '[<dtml-in s sort_expr="\'{A}\'">'
        '<dtml-var {A} missing="-">;</dtml-in>]')
    add('sort-two-then-show', '[<dtml-in s sort=grp,{A}/cmp/desc size=3 '
        'orphan=0><dtml-var {A} missing="-">;</dtml-in>]')
    add('sub-template', '[<dtml-var sub>]', sub='<dtml-with o>'
        '<dtml-var {A} missing="-">|<dtml-var pub></dtml-with>')
    add('sub-template-expr', '[<dtml-var sub>]', sub='<dtml-var "o.{A}">|'
        '<dtml-var "o.pub">', expr=True)
    # a sub-template of another (unguarded) class shares the namespace:
    # the caller's guards must stay in force inside it and after it
    add('after-plain-sub', '[<dtml-var psub>|<dtml-with o>'
        '<dtml-var {A} missing="-">|<dtml-var pub></dtml-with>]', psub='x')
    add('after-plain-sub-expr', '[<dtml-var psub><dtml-var "o.{A}">|'
        '<dtml-var "o.pub">]', psub='x', expr=True)
    add('after-plain-sub-in', '[<dtml-var psub><dtml-in s>'
        '<dtml-var {A} missing="-">,<dtml-var pub>;</dtml-in>]', psub='x')
    add('inside-plain-sub', '[<dtml-var psub>]', psub='<dtml-with o>'
        '<dtml-var {A} missing="-">|<dtml-var pub></dtml-with>')
    add('inside-plain-sub-expr', '[<dtml-var psub>]',
        psub='<dtml-var "o.{A}">|<dtml-var "o.pub">', expr=True)
    add('in-items-after-plain-sub', '[<dtml-var psub><dtml-in s '
        'skip_unauthorized><dtml-var pub>;</dtml-in>]', kind='item',
        skip=True, psub='x')
    # item channels
    add('in-items', '[<dtml-in s><dtml-var pub>;</dtml-in>]', kind='item')
    # a refusal without skip_unauthorized is an error; a handler can show it
    add('in-items-try', '[<dtml-try><dtml-in s><dtml-var pub>;</dtml-in>'
        '<dtml-except><dtml-var error_type>:<dtml-var error_value>'
        '</dtml-try>]', kind='item')
    add('in-items-batch-try', '[<dtml-try><dtml-in s size=3 orphan=0>'
        '<dtml-var pub>;</dtml-in><dtml-except><dtml-var error_value>'
        '</dtml-try>]', kind='item')
    add('in-items-skip', '[<dtml-in s skip_unauthorized><dtml-var pub>;'
        '</dtml-in>]', kind='item', skip=True)
    # the item variables must describe the item that is being shown
    add('in-items-skip-item-expr', '[<dtml-in s skip_unauthorized>'
        '<dtml-var "_[\'sequence-item\'].pub">;</dtml-in>]', kind='item',
        skip=True)
    add('in-items-skip-prefix', '[<dtml-in s skip_unauthorized prefix=it>'
        '<dtml-var "it_item.pub">,<dtml-var pub>;</dtml-in>]', kind='item',
        skip=True)
    add('in-items-skip-with-item', '[<dtml-in s skip_unauthorized '
        'no_push_item><dtml-with sequence-item><dtml-var pub></dtml-with>;'
        '</dtml-in>]', kind='item', skip=True)
    add('in-items-list-skip-item-expr', '[<dtml-in lst skip_unauthorized>'
        '<dtml-var "_[\'sequence-item\'].pub">;</dtml-in>]', kind='item',
        seqname='builtin', skip=True)
    add('in-items-batch', '[<dtml-in s size=3 orphan=0><dtml-var pub>;'
        '</dtml-in>]', kind='item')
    add('in-items-batch-skip', '[<dtml-in s size=3 orphan=0 '
        'skip_unauthorized><dtml-var pub>;</dtml-in>]', kind='item',
        skip=True)
    # reverse / sort work on a copy of the client sequence
    add('in-items-reverse', '[<dtml-in s reverse><dtml-var pub>;</dtml-in>]',
        kind='item')
    add('in-items-reverse-expr', '[<dtml-in s reverse_expr="1">'
        '<dtml-var pub>;</dtml-in>]', kind='item')
    add('in-items-sort', '[<dtml-in s sort=idn><dtml-var pub>;</dtml-in>]',
        kind='item')
    add('in-items-sort-batch', '[<dtml-in s sort=idn size=3 orphan=0>'
        '<dtml-var pub>;</dtml-in>]', kind='item')
    add('in-items-list', '[<dtml-in lst><dtml-var pub>;</dtml-in>]',
        kind='item', seqname='builtin')
    add('in-items-list-skip', '[<dtml-in lst skip_unauthorized>'
        '<dtml-var pub>;</dtml-in>]', kind='item', seqname='builtin',
        skip=True)
    add('in-items-mapping', '[<dtml-in ms mapping><dtml-var pub>;'
        '</dtml-in>]', kind='item', seqname='ms')
    add('expr-item-custom', '[<dtml-var "s[{I}].pub">]', kind='item',
        index_expr=True)
    add('expr-item-list', '[<dtml-var "lst[{I}].pub">]', kind='item',
        index_expr=True, seqname='builtin')
    # slices in expressions are reads of every element they cover
    add('expr-slice-list', '[<dtml-in "lst[:4]"><dtml-var pub>;</dtml-in>]',
        kind='item', seqname='builtin')
    add('expr-slice-custom', '[<dtml-in "s[1:]"><dtml-var pub>;</dtml-in>]',
        kind='item')
    add('expr-slice-step', '[<dtml-in "lst[::2]"><dtml-var pub>;</dtml-in>]',
        kind='item', seqname='builtin')
    add('expr-slice-let', '[<dtml-let q="lst[:]"><dtml-in q><dtml-var pub>;'
        '</dtml-in></dtml-let>]', kind='item', seqname='builtin')
    add('expr-item-map', '[<dtml-var "dm[\'k{I}\']">]', kind='item',
        index_expr=True, seqname='dm', mapkey=True)
    add('expr-item-dict', '[<dtml-var "dd[\'k{I}\']">]', kind='item',
        index_expr=True, seqname='builtin-dict', mapkey=True)
    # tree channels
    add('tree-body', '<dtml-tree root><dtml-var {A} missing="-">|'
        '<dtml-var pub></dtml-tree>', tree=True)
    add('tree-branches-denied', '<dtml-tree root branches=seckids>'
        '<dtml-var pub></dtml-tree>', tree=True, kind='tree-branches')
    add('tree-sort', '<dtml-tree root sort={A}><dtml-var pub></dtml-tree>',
        tree=True, order=True, attrs=('idn', 'skey', '_prv'))
    add('tree-id', '<dtml-tree root id={A}><dtml-var pub></dtml-tree>',
        tree=True, attrs=('pub', 'sid', '_prv'))
    add('tree-url', '<dtml-tree root url={A}><dtml-var pub>'
        '<dtml-var tree-item-url></dtml-tree>',
        tree=True, attrs=('pub', 'surl', '_prv'))
    add('tree-skip-unauthorized', '<dtml-tree root skip_unauthorized>'
        '<dtml-var pub></dtml-tree>', tree=True, kind='tree-items')
    return ch


CHANNELS = channels()


def render(ch, attr, policy, run, guarded=True, index=0):
    """-> (outcome, guard log)"""
    G = guarded_class()
    from DocumentTemplate import HTML
    lenient = guarded == 'lenient'
    if lenient:
        guarded = True
    cls = G if guarded else HTML
    numeric = ch.get('numeric', False)
    make = None
    if guarded == 'ac':
        cls = ac_classes()[0]
        deny = policy.get('attr', ())

        def make(i, **kw):
            names = [n for (who, n) in deny if who == '*' or who == i]
            return ac_object(i, names, **kw)
    objs = objects(run, numeric=numeric, make=make)
    src = ch['src'].replace('{A}', attr).replace('{I}', str(index))
    t = cls(src)
    log = []
    if guarded is True:
        t.log = log
        t.lenient = lenient
        t.deny_attr = frozenset(tuple(x) for x in policy.get('attr', ()))
        t.deny_item = frozenset(tuple(x) for x in policy.get('item', ()))
    ns = dict(o=objs[1], s=Seq('s', objs), lst=list(objs),
              ms=Seq('ms', [dict(pub=o.pub, sec=o.sec) for o in objs]),
              dm=Map('dm', {'k%d' % i: 'DM-' + str(o.sec)
                            for i, o in enumerate(objs)}),
              dd={'k%d' % i: 'DD-' + str(o.sec) for i, o in enumerate(objs)},
              URL='http://h/p', RESPONSE=Resp(), expand_all=1)
    if ch.get('tree'):
        ns['root'] = tree_nodes(run)
    if ch.get('sub'):
        sub = cls(ch['sub'].replace('{A}', attr))
        if guarded is True:
            sub.log, sub.deny_attr, sub.deny_item = log, t.deny_attr, \
                t.deny_item
            sub.lenient = lenient
        ns['sub'] = sub
    if ch.get('psub'):
        ns['psub'] = HTML(ch['psub'].replace('{A}', attr))
    client = None
    if ch.get('client') == 'tuple':
        client = (objs[0], objs[1])
    elif ch.get('client'):
        client = objs[1]
    try:
        out = t(client, ns)
        out = ('text', out if isinstance(out, str) else repr(out))
    except Exception as e:
        # the message of an error is shown to the visitor as well
        # (not under AccessControl's policy: its Unauthorized carries the
        # refused value by its own choice, outside this package)
        out = ('raise', type(e).__name__,
               '' if guarded == 'ac' else
               re.sub(r'0x[0-9a-f]+', '0x', str(e))[:400])
    return out, log


def check(case):
    """case = dict(channel, attr, policy, guarded, index)"""
    ch = [c for c in CHANNELS if c['name'] == case['channel']][0]
    attr, policy, guarded = case['attr'], case['policy'], case['guarded']
    idx = case.get('index', 0)
    a, log_a = render(ch, attr, policy, 'A', guarded, idx)
    b, log_b = render(ch, attr, policy, 'B', guarded, idx)
    name = ch['name']
    group = 'statistics' if name.startswith('statistics') else name
    mode = 'ac' if guarded == 'ac' else (
        'guarded' if guarded else 'unguarded')
    if guarded == 'lenient':
        mode = 'guarded'
    klass = case['klass']
    # refused data must not be observable
    if klass in ('denied', 'underscore', 'denied-item'):
        for out in (a, b):
            if 'SECRET' in out[-1] or 'SECID' in out[-1]:
                return ('leak:%s:%s:%s' % (group, klass, mode),
                        '%r with %s attribute %r (policy %r): refused value '
                        'in the output %r' % (ch['src'], klass, attr, policy,
                                              out[1][:300]))
        if a != b:
            return ('leak:%s:%s:%s' % (group, klass, mode),
                    '%r with %s attribute %r (policy %r): outcome depends '
                    'on the refused values: %r vs %r' % (
                        ch['src'], klass, attr, policy, a, b))
    elif klass == 'denied-scalar':
        # the guard refuses this attribute of every text and number: the
        # expression cannot have been evaluated
        if a[0] != 'raise' or a != b:
            return ('leak:%s:%s:%s' % (group, klass, mode),
                    '%r: the guard refuses attribute %r of texts and '
                    'numbers, yet the rendering gave %r' % (
                        ch['src'].replace('{A}', attr), attr, a))
    else:
        # anti-vacuity: allowed data is shown
        if ch.get('ac_mediated'):
            return None
        if a[0] != 'text' or (klass == 'public' and 'PUB' not in a[1]
                              and 'METH' not in a[1] and not
                              ch.get('numeric') and not ch.get('truth_only')):
            return ('allowed-data-missing:%s:%s' % (group, mode),
                    '%r with public attribute %r rendered %r' % (
                        ch['src'], attr, a))
    return None


def attr_classes(ch):
    names = ch.get('attrs', ('pub', 'sec', '_prv'))
    if ch.get('numeric'):
        names = ('num', 'sec', '_prv')
    if ch.get('order'):
        names = ch.get('attrs', ('idn', 'sec', '_prv'))
    if ch.get('grouped'):
        names = ('grp', 'sgrp', '_pgrp')
    return list(zip(('public', 'denied', 'underscore'), names))


def cases():
    for ch in CHANNELS:
        kind = ch['kind']
        if kind == 'attr':
            for klass, attr in attr_classes(ch):
                policies = [dict(attr=[['*', attr]])] if klass == 'denied' \
                    else [dict()]
                if klass == 'denied':
                    policies.append(dict(attr=[[1, attr], [3, attr]]))
                    policies.append(dict(attr=[[0, attr], [1, attr],
                                               [2, attr]]))
                for pol in policies:
                    if ch.get('tree') and klass == 'denied' and \
                            pol['attr'][0][0] != '*':
                        pol = dict(attr=[[1, attr], [4, attr]])
                    if klass == 'denied' and attr == 'sec' and \
                            not ch.get('tree'):
                        # the same with attributes the class defines (a
                        # method, a property) instead of instance data
                        for cattr in ('cmeth', 'cprop'):
                            yield dict(channel=ch['name'], attr=cattr,
                                       policy=dict(attr=[
                                           [w, cattr] for w, _ in
                                           pol['attr']]),
                                       guarded=True, klass=klass)
                    yield dict(channel=ch['name'], attr=attr, policy=pol,
                               guarded=True, klass=klass)
                    if not ch.get('tree') and not ch.get('psub') and \
                            not ch['name'].endswith('-try') and \
                            attr not in ('meth', 'secmeth'):
                        # same case under RestrictedDTML + AccessControl
                        yield dict(channel=ch['name'], attr=attr,
                                   policy=pol, guarded='ac', klass=klass)
                # ... and with a guard that does not itself refuse '_' names
                if klass == 'underscore' and not ch.get('tree'):
                    yield dict(channel=ch['name'], attr=attr, policy={},
                               guarded='lenient', klass=klass)
                # the underscore rule holds without any guard, too
                if klass == 'underscore' and not ch.get('expr') and \
                        'getattr' not in ch['name'] and \
                        'hasattr' not in ch['name']:
                    yield dict(channel=ch['name'], attr=attr, policy={},
                               guarded=False, klass=klass)
                if klass == 'public':
                    yield dict(channel=ch['name'], attr=attr, policy={},
                               guarded=False, klass=klass)
        elif kind == 'scalar':
            pub, den = ch['attrs']
            yield dict(channel=ch['name'], attr=pub, policy={},
                       guarded=True, klass='public')
            yield dict(channel=ch['name'], attr=pub, policy={},
                       guarded=False, klass='public')
            yield dict(channel=ch['name'], attr=den,
                       policy=dict(attr=[['scalar', den]]), guarded=True,
                       klass='denied-scalar')
        elif kind == 'item':
            seqname = ch.get('seqname', 's')
            for denied in ([], [0], [1], [2], [3], [0, 2], [1, 2, 3],
                           [0, 1, 2, 3]):
                for idx in (range(4) if ch.get('index_expr') else [0]):
                    if ch.get('index_expr') and idx not in denied and denied:
                        continue
                    keyf = (lambda i: 'k%d' % i) if ch.get('mapkey') \
                        else (lambda i: i)
                    pol = dict(item=[[seqname if not seqname.startswith(
                        'builtin') else 'builtin', keyf(i)] for i in denied])
                    if seqname == 'builtin-dict':
                        pol = dict(item=[['*', keyf(i)] for i in denied])
                    yield dict(channel=ch['name'], attr='pub', policy=pol,
                               guarded=True, index=idx,
                               klass='denied-item' if denied else 'public')
        elif kind == 'tree-branches':
            yield dict(channel=ch['name'], attr='seckids',
                       policy=dict(attr=[['*', 'seckids']]), guarded=True,
                       klass='denied')
            yield dict(channel=ch['name'], attr='seckids', policy={},
                       guarded=True, klass='public')
        elif kind == 'tree-items':
            for denied in ([], [0], [1], [0, 1]):
                yield dict(channel=ch['name'], attr='pub',
                           policy=dict(item=[['builtin', i]
                                             for i in denied]),
                           guarded=True,
                           klass='denied-item' if denied else 'public')


def item_check(case):
    """Item channels: a refused item's data never shows; with
    skip_unauthorized the others still do."""
    ch = [c for c in CHANNELS if c['name'] == case['channel']][0]
    a, _ = render(ch, 'pub', case['policy'], 'A', True, case.get('index', 0))
    denied = [p[1] for p in case['policy'].get('item', ())]
    name = ch['name']
    if case['klass'] == 'public':
        if a[0] != 'text' or ('PUB' not in a[1] and 'DM-' not in a[1] and
                              'DD-' not in a[1]):
            return ('allowed-data-missing:%s:guarded' % name,
                    '%r rendered %r' % (ch['src'], a))
        return None
    if ch['kind'] == 'tree-items':
        if a[0] != 'text':
            return ('tree-skip-unauthorized-raises', repr(a))
        got = re.findall(r'PUB(\d+)', a[1])
        exp = []

        def walk(kids):
            for k, n in enumerate(kids):
                if k in denied:
                    continue
                exp.append(str(n.i))
                walk(n.kidlist)
        walk(tree_nodes('A').kidlist)
        if got != exp:
            return ('leak:tree-skip-unauthorized:denied-item:guarded',
                    'branches %r refused: rows %r, expected %r' % (
                        denied, got, exp))
        return None
    # nothing that belongs to a refused item is observable, neither in the
    # text nor in the message of an error
    b, _ = render(ch, 'pub', case['policy'], 'B', True, case.get('index', 0))
    for run, out in (('A', a), ('B', b)):
        for i in denied:
            k = int(str(i).lstrip('k'))
            if ch.get('index_expr') and k != case.get('index'):
                continue
            m = re.search(r'SECRET-%s-[a-z]%d\b' % (run, k), out[-1])
            if m:
                return ('leak:%s:denied-item:guarded' % name,
                        '%r with items %r refused: %r is observable in %r'
                        % (ch['src'], denied, m.group(0), out))
    if a[0] == 'text':
        shown = a[1]
        for i in denied:
            k = int(str(i).lstrip('k'))
            if ch.get('index_expr') and k != case.get('index'):
                continue
            for token in ('PUB%d' % k, 'DM-%d-' % k, 'DD-%d-' % k):
                if token in shown or (ch.get('mapkey') and
                                      'SECRET' in shown):
                    return ('leak:%s:denied-item:guarded' % name,
                            '%r with items %r refused rendered %r' % (
                                ch['src'].replace('{I}', str(case.get(
                                    'index', 0))), denied, shown[:200]))
        if ch.get('skip') or case['channel'] == 'tree-skip-unauthorized':
            allowed = [i for i in range(4) if i not in denied]
            if ch.get('kind') == 'item' and 'batch' not in name:
                for i in allowed:
                    if 'PUB%d' % i not in shown:
                        return ('skip-unauthorized-hides-allowed:%s' % name,
                                '%r items %r refused: %r' % (
                                    ch['src'], denied, shown[:200]))
    return None


def run_case(case):
    ch = [c for c in CHANNELS if c['name'] == case['channel']][0]
    if ch['kind'] in ('item', 'tree-items'):
        return item_check(case)
    return check(case)


def plan(tier, seed):
    all_cases = list(cases())
    n = 1500 if tier == 'quick' else 20000
    return [dict(cases=all_cases[i::8]) for i in range(8)] + \
        [dict(gen=True, seed=seed * 1000 + i, n=n) for i in range(16)]


def run_gen_shard(shard):
    from checks import c05_gen
    acc = Acc(ID, sample_every=211)
    strat = c05_gen.case()

    def one(c):
        bad, info = c05_gen.check(c)
        acc.case(c, info['refused'] > 0,
                 klass=['gen', 'gen:outcome:' + info['outcome'],
                        'gen:refused-and-rendered' if info['refused'] and
                        info['outcome'] == 'text' else 'gen:other',
                        'gen:allowed-data-shown' if info['ok']
                        else 'gen:no-allowed-data'])
        if bad:
            acc.fail(bad[0], c, bad[1])
    hyp_run(strat, one, shard['n'], shard['seed'])

    def bucket_of(c):
        b = c05_gen.check(c)[0]
        return b[0] if b else None
    shrink_failures(acc, strat, bucket_of, shard['seed'])
    return acc.result()


def run_shard(shard):
    if shard.get('gen'):
        return run_gen_shard(shard)
    acc = Acc(ID, sample_every=29)
    for case in shard['cases']:
        bad = run_case(case)
        acc.case(case, case['klass'] != 'public',
                 klass=['class:' + case['klass'],
                        'channel:' + case['channel'],
                        'ac' if case['guarded'] == 'ac' else (
                            'lenient-guard' if case['guarded'] == 'lenient'
                            else 'guarded' if case['guarded'] else
                            'unguarded')],
                 distinct_by_construction=True)
        if bad:
            acc.fail(bad[0], case, bad[1])
    return acc.result()


def replay(case):
    if 'src' in case:
        from checks import c05_gen
        return c05_gen.check(case)[0]
    return run_case(case)
