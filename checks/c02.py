"""C02 - names resolve by documented source precedence; block bindings are
scoped.  Oracles: (a) independent priority rule over the six sources,
exhaustively; (b) reference interpreter on generated scoping programs whose
namespace is spread over the six sources."""
import itertools

from vf import dtml, gen, harness, model
from vf.engine import Acc, hyp_run, shrink_failures

ID = 'C02'
EXHAUSTIVE = ('quick', 'thorough')
RULE = ('(a) exhaustive: all 63 non-empty subsets of the six sources (call '
        'keywords, template variables, client object(s), call mapping, '
        'constructor keywords, constructor mapping) each binding the probed '
        'name to its own sentinel x client given as object / 1-tuple / '
        '2-tuple (name on first, last or both) x reference form (dtml-var, '
        'entity, expression, if + cached re-reference, in, via a '
        'sub-template with and without its own default) x value kind '
        '(plain, recorder callable, document template) x underscore names; '
        '(b) Hypothesis: nestings (depth <= 3) of in / with (mapping, only) / '
        'let / if / unless / try-except with probes <dtml-var n missing=..> '
        'before, inside and after every block and sub-template calls, the '
        'namespace randomly spread over the six sources with shadowed '
        'duplicates; (c) exhaustive: every ordered pair (thorough: triple) '
        'of 14 binding blocks (in / in mapping prefix / in else / in '
        'no_push_item / with / with mapping / let / if name / if-elif names '
        '/ if-else / unless / try handler / try else / try finally) with '
        'probes of every bindable name before, inside and after each '
        'level and a sub-template call, 3 syntaxes.  Non-trivial: >= 2 sources define the name, or a probe '
        'sits after a block that bound it.  Enumerated cases are distinct by '
        'construction.')
RULE += (
         'Also: the probed name drawn from 30 builtin-like / '
         'helper-like names (max, id, filter, str, test, string, math, '
         'namespace, title, REQUEST ...) for every form x value kind x '
         'single sources and the full set; binding through '
         '_.namespace(q=name). ')
RULE += (
         'Sources that change during the rendering (an object gains '
         'the attribute between two reads; 5 binders x 36 reader '
         'pairs); acquisition-wrapped callables in every source. ')
RULE += ('Round 8: the call mapping and block mappings as dict subclasses that compute their answers (__missing__, overridden __getitem__) and as a mapping that is no dict. ')
RULE += ('Round 10: loops over objects, texts and numbers in one sequence among the nesting blocks. ')
ASSUMPTIONS = ['reference interpreter vf/model.py is trusted for (b)']

SOURCES = harness.SOURCE_ORDER
FORMS = ['var', 'entity', 'expr', 'if', 'in', 'sub', 'sub-default',
         'let-name', 'with-only', 'if-expr', 'elif-expr', 'unless-expr',
         'sub-default-equal-map',
         'sub-default-equal-sub', 'sub-default-self',
         'namespace-expr', 'namespace-name']
# names that coincide with names an expression could find elsewhere
# (Python builtins, members of the `_` helper, methods of str / dict)
NAMES = ['nn', 'max', 'id', 'filter', 'min', 'next', 'str', 'len', 'test',
         'string', 'math', 'range', 'abs', 'title', 'upper', 'items', 'keys',
         'random', 'DateTime', 'namespace', 'getattr', 'int', 'same_type',
         'sorted', 'reorder', 'whrandom', 'var', 'render', 'this', 'md',
         'REQUEST', 'args', 'kw']
KINDS = ['plain', 'rec', 'tmpl', 'rec-keyerror', 'rec-nameerror',
         'tmpl-undef']
# values whose evaluation fails: the highest-priority source still *defines*
# the name, so the failure propagates (no fall-through to a lower source)
RAISING = {'rec-keyerror': 'KeyError', 'rec-nameerror': 'NameError',
           'tmpl-undef': 'KeyError'}


def value(kind, tag, form):
    s = 'S:' + tag
    if form == 'in':
        if kind in RAISING:
            return None
        if kind == 'plain':
            return dict(t='list', items=[s, s + '2'])
        if kind == 'rec':
            return dict(t='rec', id=tag, ret=dict(t='list', items=[s]))
        return None
    if kind in RAISING and form in ('in', 'expr', 'namespace-expr',
                                    'namespace-name'):
        return None
    if form in ('if-expr', 'elif-expr', 'unless-expr'):
        # the object itself is true, what calling it returns is false
        if kind == 'plain':
            return s
        if kind == 'rec':
            return dict(t='rec', id=tag, ret=0)
        return None
    if kind == 'plain':
        return s
    if kind == 'rec':
        return dict(t='rec', id=tag, ret=s)
    if kind in ('rec-keyerror', 'rec-nameerror'):
        return dict(t='rec', id=tag, ret=s, raises=RAISING[kind])
    if kind == 'tmpl-undef':
        return dict(t='tmpl', ast=[
            dict(k='text', s='T:' + tag),
            dict(k='var', ref=dict(r='name', n='undefined_' + tag),
                 opts=[])], defaults={})
    return dict(t='tmpl', ast=[dict(k='text', s='T:' + tag)], defaults={})


def expected(kind, tag, form):
    """(text, calllog) from the statement."""
    s = 'S:' + tag
    called = [['call', tag]] if kind == 'rec' else []
    shown = {'plain': s, 'rec': s, 'tmpl': 'T:' + tag}[kind]
    if form in ('var', 'entity', 'sub', 'let-name', 'with-only',
                'namespace-name'):
        return '[' + shown + ']', called
    if form in ('expr', 'namespace-expr'):
        # expressions receive the object uncalled
        if kind == 'plain':
            return '[' + s + ']', []
        if kind == 'rec':
            return '[<Rec %s>]' % tag, []
        return '[T:' + tag + ']', []      # str(template) == its source
    if form in ('if-expr', 'elif-expr'):
        # expressions receive the object uncalled: it is true, never called
        return '[Y]', []
    if form == 'unless-expr':
        return '[]', []
    if form == 'if':
        return '[Y' + shown + ']', called
    if form == 'in':
        if kind == 'plain':
            return '[(%s)(%s2)]' % (s, s), []
        return '[(%s)]' % s, called
    raise ValueError(form)


def source_text(form):
    n = 'nn'
    return {
        'var': '[<dtml-var nn>]',
        'entity': '[&dtml-nn;]',
        'expr': '[<dtml-var "nn">]',
        'if': '[<dtml-if nn>Y<dtml-var nn><dtml-else>N</dtml-if>]',
        'in': '[<dtml-in nn>(<dtml-var sequence-item>)</dtml-in>]',
        'sub': '[<dtml-var subt>]',
        'sub-default': '[<dtml-var subd>]',
        'let-name': '[<dtml-let q=nn><dtml-var q></dtml-let>]',
        'with-only': '[<dtml-with wo only><dtml-var other missing="">'
                     '</dtml-with><dtml-var nn>]',
        'if-expr': '[<dtml-if "nn">Y<dtml-else>N</dtml-if>]',
        'elif-expr': '[<dtml-if "0">Z<dtml-elif expr="nn">Y<dtml-else>N'
                     '</dtml-if>]',
        'unless-expr': '[<dtml-unless "nn">U</dtml-unless>]',
        # a mapping equal to the sub-template's defaults is already on the
        # namespace, a let rebinds the name, then the sub-template is called
        'sub-default-equal-map': '[<dtml-with eqmap mapping><dtml-let '
                                 'nn="\'LET\'"><dtml-var subd></dtml-let>'
                                 '</dtml-with>]',
        # bound through the namespace helper: the object is bound as it is,
        # a reference by name calls it, an expression receives it uncalled
        'namespace-expr': '[<dtml-with "_.namespace(q=nn)"><dtml-var "q">'
                          '</dtml-with>]',
        'namespace-name': '[<dtml-with "_.namespace(q=nn)"><dtml-var q>'
                          '</dtml-with>]',
        'sub-default-equal-sub': '[<dtml-var suba>]',
        'sub-default-self': '[<dtml-var subs>]',
    }[form]


CLIENT_FORMS = ['obj', 'tuple1', 'tuple2-first', 'tuple2-last',
                'tuple2-both', 'obj-empty', 'obj-false', 'tuple1-empty']


def enum_case(subset, cform, form, kind):
    sources = {}
    for sname in subset:
        if sname == 'client':
            continue
        sources[sname] = {'nn': value(kind, sname, form)}
    winner = [s for s in SOURCES if s in subset][0]
    falsy = None
    if cform.endswith('-empty') or cform.endswith('-false'):
        falsy = 'len' if cform.endswith('-empty') else 'bool'
        cform = cform.split('-')[0]
    if falsy:
        sources['client_falsy'] = falsy
    if 'client' in subset:
        v1 = value(kind, 'client', form)
        if cform == 'obj':
            sources['client'] = [dict(nn=v1)]
            sources['client_tuple'] = False
        elif cform == 'tuple1':
            sources['client'] = [dict(nn=v1)]
        elif cform == 'tuple2-first':
            sources['client'] = [dict(nn=v1), dict(other='o')]
        elif cform == 'tuple2-last':
            sources['client'] = [dict(other='o'), dict(nn=v1)]
        else:
            sources['client'] = [dict(nn=value(kind, 'client-first', form)),
                                 dict(nn=v1)]
    else:
        if cform == 'obj':
            sources['client'] = [dict(other='o')]
            sources['client_tuple'] = False
        elif cform != 'tuple1':
            return None
    # helper values live in the lowest-priority source
    low = sources.setdefault('ctor_map', {})
    low['subt'] = dict(t='tmpl', ast=[dict(k='var', ref=dict(r='name',
                                                             n='nn'),
                                           opts=[])], defaults={})
    low['wo'] = dict(t='obj', attrs=dict(zz=1))
    return sources, winner


def rename(x, name):
    """The structure with the probed name 'nn' replaced by `name`."""
    if isinstance(x, dict):
        return {(name if k == 'nn' else k): rename(v, name)
                for k, v in x.items()}
    if isinstance(x, list):
        return [rename(v, name) for v in x]
    return name if x == 'nn' else x


def run_enum(case):
    subset, cform, form, kind = case[:4]
    name = case[4] if len(case) > 4 else 'nn'
    built = enum_case(subset, cform, form, kind)
    if built is None:
        return 'skip'
    sources, winner = built
    if len(case) > 5 and case[5]:
        # the call mapping is a dict subclass / another mapping class
        sources['mapping_class'] = case[5]
    if value(kind, winner, form) is None:
        return 'skip'
    src = source_text(form)
    if name != 'nn':
        if form.startswith('sub-default'):
            return 'skip'
        src = src.replace('nn', name)
        sources = rename(sources, name)
    if not form.startswith('sub-default') and kind not in RAISING:
        exp_text, exp_log = expected(kind, winner, form)
    if form.startswith('sub-default'):
        if kind != 'plain' and form != 'sub-default':
            return 'skip'
        var_nn = dict(k='var', ref=dict(r='name', n='nn'), opts=[])
        low = sources['ctor_map']
        low['subd'] = dict(t='tmpl', ast=[var_nn],
                           defaults=dict(nn='SUBDEFAULT'))
        low['eqmap'] = dict(t='dict', items=dict(nn='SUBDEFAULT'))
        let = dict(k='let', binds=[['nn', dict(r='expr', e=dict(
            e='lit', v='LET'))]], eol=['', ''])
        # another template with equal defaults calls subd below a let
        low['suba'] = dict(t='tmpl', defaults=dict(nn='SUBDEFAULT'), ast=[
            var_nn, dict(k='text', s='/'),
            dict(let, body=[dict(k='var', ref=dict(r='name', n='subd'),
                                 opts=[])])])
        # a template that calls itself (once) below a let
        low['subs'] = dict(t='tmpl', defaults=dict(nn='SUBDEFAULT'), ast=[
            var_nn, dict(k='if', conds=[dict(r='name', n='again')],
                         bodies=[[]], eol=['', '', ''], **{'else': [
                             dict(k='text', s='/'), dict(let, binds=let[
                                 'binds'] + [['again', dict(r='expr', e=dict(
                                     e='lit', v=1))]], body=[dict(
                                         k='var', ref=dict(r='name',
                                                           n='subs'),
                                         opts=[])])]})])
        exp_text, exp_log = {
            'sub-default': '[SUBDEFAULT]',
            'sub-default-equal-map': '[SUBDEFAULT]',
            'sub-default-equal-sub': '[SUBDEFAULT/SUBDEFAULT]',
            'sub-default-self': '[SUBDEFAULT/SUBDEFAULT]'}[form], []
    out, world = harness.run_impl_sources(src, 'dtml', sources)
    no = harness.norm_outcome(out)
    log = [list(x) for x in world.log]
    if kind in RAISING and not form.startswith('sub-default'):
        exp_log = [['call', winner]] if kind.startswith('rec') else []
        if no[:2] != ['raise', RAISING[kind]]:
            return ('precedence:failing-value-skipped:%s' % form,
                    'sources %s define nn; the winner %r holds a value whose '
                    'evaluation raises %s: %r gave %r, expected that '
                    'exception' % (subset, winner, RAISING[kind], src, no))
        if kind == 'tmpl-undef' and 'undefined_' + winner not in no[2]:
            return ('precedence:failing-value-skipped:%s' % form,
                    '%r with %s: KeyError %r does not name the undefined '
                    'name of the winning template (%s)' % (
                        src, subset, no[2], winner))
        if log != exp_log:
            return ('precedence:calls:%s' % form,
                    '%r with %s: calls %r, expected %r' % (src, subset, log,
                                                           exp_log))
        return None
    if no != ['text', exp_text]:
        got = no[1] if no[0] == 'text' else no
        which = 'exception' if no[0] == 'raise' else 'wrong-source'
        return ('precedence:%s:%s' % (which, form),
                'sources %s defining %s, winner should be %r (%s, %s): %r '
                'rendered %r, expected %r' % (subset, name, winner, cform,
                                              kind, src, got, exp_text))
    if log != exp_log:
        return ('precedence:calls:%s' % form,
                '%r with %s: calls %r, expected %r' % (src, subset, log,
                                                       exp_log))
    return None


def run_underscore(case):
    where, name = case
    sources = {}
    if where == 'client':
        sources['client'] = [{name: 'LEAK', 'pub': 'P'}]
        sources['client_tuple'] = False
    elif where == 'client-tuple':
        sources['client'] = [{name: 'LEAK'}, {'pub': 'P'}]
    else:
        sources[where] = {name: 'VIS', 'pub': 'P'}
    src = '[<dtml-var %s missing="-">|<dtml-var pub>]' % name
    out, world = harness.run_impl_sources(src, 'dtml', sources)
    no = harness.norm_outcome(out)
    if where.startswith('client') or where == 'ctor_map':
        exp = '[-|P]'
    else:
        exp = '[VIS|P]'
    if no != ['text', exp]:
        return ('underscore:%s' % where, '%r with %s=%r in %s rendered %r, '
                'expected %r' % (src, name, 'LEAK', where, no, exp))
    return None


# ---- (b) generated scoping programs ------------------------------------

BOUND = ['la', 'lb', 'xo', 'fo', 'xi', 'xk', 'xm', 'error_type',
         'sequence-item', 'sequence-index', 'sequence-number', 'td', 'pq_item']
CFG = gen.Config(kinds=['text', 'var', 'var', 'var', 'ent', 'if', 'unless',
                        'in', 'with', 'let', 'try', 'sub', 'boom'],
                 max_depth=3, max_items=4, literals=False, eol=False,
                 var_names=['va', 'vb', 'vn'] + BOUND)


def spread(ns, picks):
    """Distribute the namespace over the six sources (plain data)."""
    it = itertools.cycle(picks or [0])
    sources = {k: {} for k in SOURCES if k != 'client'}
    client = [{}, {}]
    names = sorted(ns)
    for name in names:
        p = next(it)
        where = SOURCES[p % 6]
        spec = ns[name]
        if where == 'client':
            client[(p // 6) % 2][name] = spec
        else:
            sources[where][name] = spec
        # a shadowed duplicate in some lower-priority source
        if p % 5 == 0 and isinstance(spec, str):
            lower = SOURCES[(p % 6) + 1:] or []
            if lower:
                lw = lower[(p // 7) % len(lower)]
                dup = 'SHADOWED(%s)' % name
                if lw == 'client':
                    # lower priority inside the client tuple = first object
                    client[0].setdefault(name, dup)
                else:
                    sources[lw][name] = dup
    # exception classes are callables: keep them out of reach of tags
    sources['client'] = client
    return sources


def fix_client_shadow(sources):
    """client[1] has priority over client[0]; nothing to fix, documented."""
    return sources


def strategy():
    from hypothesis import strategies as st
    return st.fixed_dictionaries(dict(
        ast=gen.template(CFG), style=gen.style(),
        picks=st.lists(st.integers(0, 60), min_size=3, max_size=12),
        syntax=st.sampled_from(['dtml', 'ssi', 'epfs'])))


def with_missing(ast):
    """Probes: half of the plain var nodes get missing=... so that a name
    that is no longer bound shows as a marker instead of raising."""
    import copy
    ast = copy.deepcopy(ast)
    i = 0
    for n in dtml.walk(ast):
        if n['k'] == 'var' and n['ref']['r'] == 'name' and not n['opts']:
            i += 1
            if i % 3:
                n['opts'] = [['missing', '∅']]
    return ast


def run_random(case, probes_added=False):
    ast = case['ast'] if probes_added else with_missing(case['ast'])
    sources = spread(gen.base_ns(), case['picks'])
    src, toks = dtml.print_ast(ast, case['syntax'], dtml.Style(case['style']))
    try:
        out_m, w_m = harness.run_model_sources(ast, sources)
    except model.Unspecified:
        return 'unspecified'
    out_i, w_i = harness.run_impl_sources(src, case['syntax'], sources)
    no_m, no_i = harness.norm_outcome(out_m), harness.norm_outcome(out_i)
    if no_m != no_i:
        return ('scoping:outcome', 'source %r\n sources %r\n expected %r\n '
                'got      %r' % (src, {k: sorted(v) if isinstance(v, dict)
                                       else [sorted(x) for x in v]
                                       for k, v in sources.items()},
                                 no_m, no_i))
    if w_m.log != w_i.log:
        return ('scoping:calllog', 'source %r\n expected %r\n got %r' % (
            src, w_m.log, w_i.log))
    return None


# ---- (c) enumerated block nestings --------------------------------------

def _v(n, **opts):
    return dict(k='var', ref=dict(r='name', n=n),
                opts=[[k, v] for k, v in opts.items()])


def _t(s):
    return dict(k='text', s=s)


PROBE_NAMES = ['va', 'vb', 'xo', 'fo', 'xi', 'xk', 'xm', 'la', 'lb', 'td',
               'error_type', 'sequence-item', 'sequence-index', 'pq_item',
               'ct', 'cf', 'ft', 'ff', 'fa',
               # outer names that merely end like a sequence variable
               'content-length', 'page-number', 'my-item', 'doc-key',
               'row-index', 'x-even', 'q-roman', 'tab-start',
               'a-size', 'b-batches']


def probes(tag):
    return [_t('{%s:' % tag)] + [n for name in PROBE_NAMES for n in (
        _v(name, missing='∅'), _t(','))] + [_t('}')]


def _name(n):
    return dict(r='name', n=n)


BLOCKS = {
    'in': lambda b: dict(k='in', ref=_name('s2'), opts=[], body=b,
                         **{'else': None}),
    'in-mapping-prefix': lambda b: dict(
        k='in', ref=_name('sm'), opts=[['mapping', None], ['prefix', 'pq']],
        body=b, **{'else': None}),
    'in-empty-else': lambda b: dict(k='in', ref=_name('s0'), opts=[],
                                    body=[_t('never')], **{'else': b}),
    'in-mixed': lambda b: dict(k='in', ref=_name('smix'), opts=[], body=b,
                               **{'else': None}),
    'in-mixed-batch': lambda b: dict(k='in', ref=_name('smix'), opts=[
        ['size', '4'], ['start', '2'], ['orphan', '0']], body=b,
        **{'else': None}),
    'in-no-push': lambda b: dict(k='in', ref=_name('s2'),
                                 opts=[['no_push_item', None]], body=b,
                                 **{'else': None}),
    'with': lambda b: dict(k='with', ref=_name('oa'), mapping=False,
                           only=False, body=b),
    'with-mapping': lambda b: dict(k='with', ref=_name('ma'), mapping=True,
                                   only=False, body=b),
    'let': lambda b: dict(k='let', binds=[['la', _name('vb')],
                                          ['lb', _name('la')],
                                          ['va', _name('fa')]], body=b),
    'if-name': lambda b: dict(k='if', conds=[_name('ft')], bodies=[b],
                              **{'else': None}),
    'if-elif-names': lambda b: dict(
        k='if', conds=[_name('ff'), _name('cf'), _name('ft')],
        bodies=[[_t('n1')], [_t('n2')], b], **{'else': [_t('n3')]}),
    'if-else': lambda b: dict(k='if', conds=[_name('ff'), _name('cu')],
                              bodies=[[_t('n1')], [_t('n2')]],
                              **{'else': b}),
    'unless': lambda b: dict(k='unless', ref=_name('ff'), body=b),
    'try-handler': lambda b: dict(
        k='try', body=[_v('fr')], handlers=[dict(names=['VfA'], body=b)],
        **{'else': None, 'finally': None}),
    'try-else': lambda b: dict(
        k='try', body=[_v('fa')], handlers=[dict(names=[], body=[_t('h')])],
        **{'else': b, 'finally': None}),
    'try-finally': lambda b: dict(k='try', body=b, handlers=[],
                                  **{'else': None, 'finally': [_v('ft')]}),
}


def nesting_ast(names, abort=None):
    """names: block kinds, outermost first.  abort: the innermost body is
    left abnormally - 'raise' (a callable raises; an enclosing try handles
    it) or 'return' (a sub-template returns from inside its own loop)."""
    inner = probes('in%d' % len(names))
    if abort == 'raise':
        inner = inner + [_v('fr')]
    elif abort == 'return':
        inner = inner + [_v('tl')] + probes('after-sub')
    if abort == 'raise':
        body = inner
        for depth in range(len(names), 0, -1):
            blk = BLOCKS[names[depth - 1]](body)
            body = probes('b%d' % depth) + [blk] + probes('not-reached')
        return [dict(k='try', body=body, handlers=[dict(
            names=['VfA'], body=probes('handler'))],
            **{'else': None, 'finally': None})] + probes('end') + [_v('ta')]
    for depth in range(len(names), 0, -1):
        blk = BLOCKS[names[depth - 1]](inner)
        inner = probes('b%d' % depth) + [blk] + probes('a%d' % depth) + \
            [_v('ta')]
    return inner


def run_nesting(case):
    names, syntax, pick = case[1], case[2], case[3]
    ast = nesting_ast(names, case[4] if len(case) > 4 else None)
    return run_random(dict(ast=ast, style=[pick], picks=[pick, pick + 7, 3,
                                                         pick * 5 + 1, 11],
                           syntax=syntax), probes_added=True)


# ---- (d) sources that change while the template renders; wrapped callables

READERS = {
    'var': '<dtml-var nn>', 'entity': '&dtml-nn;',
    'expr': '<dtml-var "_[\'nn\']">',
    'if': '<dtml-if nn><dtml-var nn><dtml-else>false</dtml-if>',
    'let': '<dtml-let q=nn><dtml-var q></dtml-let>',
    'has': '<dtml-var "_.has_key(\'nn\') and _[\'nn\']">',
}
BINDERS = ['client', 'client-tuple', 'with', 'in-item', 'with-in-let']


class Late:
    pass


def run_late(case):
    """['late', binder, reader1, reader2]: the highest-priority source (an
    object) does not define the name when it is first read, so a lower
    source answers; then the object gets the attribute (lazy loading) and
    answers the second read."""
    from DocumentTemplate import HTML
    _, binder, r1, r2 = case
    o = Late()

    def load():
        o.nn = 'S:object'
        return ''
    body = '%s|<dtml-var load>%s' % (READERS[r1], READERS[r2])
    mapping = dict(nn='S:mapping', load=load, o=o, seq=[o, Late()][:1],
                   other=Late())
    client = None
    if binder == 'client':
        src, client = '[%s]' % body, o
    elif binder == 'client-tuple':
        src, client = '[%s]' % body, (mapping['other'], o)
    elif binder == 'with':
        src = '[<dtml-with o>%s</dtml-with>]' % body
    elif binder == 'in-item':
        src = '[<dtml-in seq>%s</dtml-in>]' % body
    else:
        src = '[<dtml-with o><dtml-in seq><dtml-let z=load>%s</dtml-let>' \
              '</dtml-in></dtml-with>]' % body
    exp = '[S:mapping|S:object]'
    if binder == 'with-in-let':
        exp = '[S:object|S:object]'       # the let binding loaded it
    try:
        out = HTML(src)(client, mapping)
    except Exception as e:
        out = 'raised %r' % (e,)
    if out != exp:
        return ('precedence:late-definition:%s' % binder,
                '%r: the object gets the attribute between the two reads: '
                'rendered %r, expected %r' % (src, out, exp))
    return None


def run_blockmap(case):
    """<dtml-with m mapping> / <dtml-in seq mapping> whose mappings are
    dict subclasses with computed answers: the block binding shadows the
    outer definition of the name."""
    from DocumentTemplate import HTML
    from vf.values import MAPPING_CLASSES
    _, mc, blk, reader = case
    cls = MAPPING_CLASSES[mc]
    body = READERS[reader]
    if blk == 'with':
        src = '<dtml-with m mapping>[%s]</dtml-with>(&dtml-nn;)' % body
        ns = dict(m=cls({'nn': 'INNER'}), nn='OUTER')
        exp = '[%s](OUTER)' % reader_text(reader, 'INNER')
    else:
        src = '<dtml-in seq mapping>[%s]</dtml-in>(&dtml-nn;)' % body
        ns = dict(seq=[cls({'nn': 'I1'}), cls({'nn': 'I2'})], nn='OUTER')
        exp = '[%s][%s](OUTER)' % (reader_text(reader, 'I1'),
                                   reader_text(reader, 'I2'))
    try:
        out = HTML(src)(**ns)
    except Exception as e:
        out = 'raised %r' % (e,)
    if out != exp:
        return ('precedence:block-mapping-class:%s' % blk,
                '%r with %s mappings rendered %r, expected %r' % (
                    src, mc, out, exp))
    return None


def reader_text(reader, v):
    return {'has_key': '1'}.get(reader, v)


def run_acquired(case):
    """['acquired', where, reader]: a callable that is an acquisition
    wrapper whose context is a template: looked up by name it is called
    (without arguments) like any other callable."""
    import Acquisition
    from DocumentTemplate import HTML
    _, where, reader = case

    class Helper(Acquisition.Implicit):
        def __call__(self, *args):
            if args:
                raise TypeError('called with %d arguments' % len(args))
            return 'S:called'

    class Document(Acquisition.Implicit, HTML):
        """A document template that takes part in acquisition (as the
        DTML documents of an application server do)."""
    holder = Document('holder template')
    v = Helper().__of__(holder)
    body = READERS[reader]
    o = Late()
    kw, mapping, client = {}, dict(o=o), None
    src = '[%s]' % body
    if where == 'kw':
        kw['nn'] = v
    elif where == 'mapping':
        mapping['nn'] = v
    elif where == 'client':
        o.nn = v
        client = o
    elif where == 'with':
        o.nn = v
        src = '[<dtml-with o>%s</dtml-with>]' % body
    elif where == 'default':
        pass
    exp = '[S:called]'
    if reader in ('expr', 'has'):
        return None                 # expressions receive the object uncalled
    try:
        if where == 'default':
            out = HTML(src, nn=v)(client, mapping)
        else:
            out = HTML(src)(client, mapping, **kw)
    except Exception as e:
        out = 'raised %r' % (e,)
    if out != exp:
        return ('precedence:wrapped-callable:%s' % where,
                '%r with a wrapped callable in %s rendered %r, expected %r'
                % (src, where, out, exp))
    return None


def subsets():
    for r in range(1, 7):
        for c in itertools.combinations(SOURCES, r):
            yield list(c)


def plan(tier, seed):
    shards = []
    for form in FORMS:
        shards.append(dict(kind='enum', form=form))
    shards.append(dict(kind='underscore'))
    shards.append(dict(kind='mapclass'))
    shards.append(dict(kind='late'))
    for i in range(4):
        shards.append(dict(kind='names', names=NAMES[1:][i::4]))
    kinds = sorted(BLOCKS)
    for i, a in enumerate(kinds):
        shards.append(dict(kind='nesting', outer=a,
                           triples=tier == 'thorough'))
    n = 300 if tier == 'quick' else 5000
    for i in range(8):
        shards.append(dict(kind='random', seed=seed * 1000 + i, n=n))
    return shards


def run_shard(shard):
    acc = Acc(ID, sample_every=101)
    if shard['kind'] == 'enum':
        form = shard['form']
        for subset in subsets():
            for cform in CLIENT_FORMS:
                for kind in KINDS:
                    case = [subset, cform, form, kind]
                    bad = run_enum(case)
                    if bad == 'skip':
                        continue
                    acc.case(case, len(subset) >= 2, klass='enum:' + form,
                             distinct_by_construction=True)
                    if bad:
                        acc.fail(bad[0], case, bad[1])
    elif shard['kind'] == 'mapclass':
        # the call mapping given as a dict subclass that computes its
        # answers (__missing__, overridden __getitem__) or as a mapping that
        # is no dict; block mappings (with / in ... mapping) of these classes
        for mc in ('missing', 'record', 'plainmapping'):
            for subset in subsets():
                if 'mapping' not in subset:
                    continue
                for form in ('var', 'entity', 'expr', 'if', 'sub'):
                    for kind in ('plain', 'rec'):
                        case = [subset, 'obj', form, kind, 'nn', mc]
                        bad = run_enum(case)
                        if bad == 'skip':
                            continue
                        acc.case(case, True, klass='mapping-class:' + mc,
                                 distinct_by_construction=True)
                        if bad:
                            acc.fail(bad[0] + ':mapping-class', case, bad[1])
            for blk in ('with', 'in'):
                for reader in sorted(READERS):
                    case = ['blockmap', mc, blk, reader]
                    bad = run_blockmap(case)
                    acc.case(case, True, klass='block-mapping-class:' + mc,
                             distinct_by_construction=True)
                    if bad:
                        acc.fail(bad[0], case, bad[1])
    elif shard['kind'] == 'late':
        for binder in BINDERS:
            for r1 in sorted(READERS):
                for r2 in sorted(READERS):
                    case = ['late', binder, r1, r2]
                    bad = run_late(case)
                    acc.case(case, True, klass='late-definition',
                             distinct_by_construction=True)
                    if bad:
                        acc.fail(bad[0], case, bad[1])
        for where in ('kw', 'mapping', 'client', 'with', 'default'):
            for reader in sorted(READERS):
                case = ['acquired', where, reader]
                bad = run_acquired(case)
                acc.case(case, True, klass='wrapped-callable',
                         distinct_by_construction=True)
                if bad:
                    acc.fail(bad[0], case, bad[1])
    elif shard['kind'] == 'names':
        few = [[x] for x in SOURCES] + [list(SOURCES), list(SOURCES[2:])]
        for name in shard['names']:
            for form in FORMS:
                for kind in KINDS:
                    for subset in few:
                        case = [subset, 'obj', form, kind, name]
                        bad = run_enum(case)
                        if bad == 'skip':
                            continue
                        acc.case(case, True, klass='enum-name:' + form,
                                 distinct_by_construction=True)
                        if bad:
                            acc.fail(bad[0] + ':name', case, bad[1])
    elif shard['kind'] == 'nesting':
        kinds = sorted(BLOCKS)
        combos = [[shard['outer']]] + [[shard['outer'], b] for b in kinds]
        if shard['triples']:
            combos += [[shard['outer'], b, c] for b in kinds for c in kinds]
        total_n, unspec_n = [0], [0]
        for k, names in enumerate(combos):
            for sx in ('dtml', 'ssi', 'epfs'):
                for abort in (None, 'raise', 'return'):
                    case = ['nesting', names, sx, k % 5] + (
                        [abort] if abort else [])
                    bad = run_nesting(case)
                    total_n[0] += 1
                    if bad == 'unspecified':
                        unspec_n[0] += 1
                    acc.case(case, bad != 'unspecified',
                             klass='nesting-depth-%d%s%s' % (
                                 len(names), '-' + abort if abort else '',
                                 ':unspecified' if bad == 'unspecified'
                                 else ''),
                             distinct_by_construction=True)
                    if bad and bad != 'unspecified':
                        acc.fail(bad[0].replace('scoping', 'nesting'), case,
                                 bad[1])
        if unspec_n[0] * 10 > total_n[0]:
            # anti-vacuity: the reference interpreter gave up on more than
            # a tenth of the enumerated nestings - a harness problem
            raise RuntimeError('%d of %d enumerated nestings are '
                               'unspecified' % (unspec_n[0], total_n[0]))
    elif shard['kind'] == 'underscore':
        for where in ['client', 'client-tuple', 'kw', 'vars', 'mapping',
                      'ctor_kw', 'ctor_map']:
            for name in ['_x', '__y', '_', '_priv_1']:
                case = ['underscore', where, name]
                bad = run_underscore(case[1:])
                acc.case(case, True, klass='underscore',
                         distinct_by_construction=True)
                if bad:
                    acc.fail(bad[0], case, bad[1])
    else:
        strat = strategy()

        def one(case):
            bad = run_random(case)
            blocks = sum(1 for n in dtml.walk(case['ast'])
                         if n['k'] in ('in', 'with', 'let', 'try', 'if'))
            acc.case(case, blocks >= 1, klass='scoping' if bad !=
                     'unspecified' else 'scoping-unspecified')
            if bad and bad != 'unspecified':
                acc.fail(bad[0], case, bad[1])
        hyp_run(strat, one, shard['n'], shard['seed'])

        def bucket_of(c):
            b = run_random(c)
            return b[0] if b and b != 'unspecified' else None
        shrink_failures(acc, strat, bucket_of, shard['seed'])
    return acc.result()


def replay(case):
    if isinstance(case, dict):
        b = run_random(case)
    elif case[0] == 'late':
        b = run_late(case)
    elif case[0] == 'acquired':
        b = run_acquired(case)
    elif case[0] == 'underscore':
        b = run_underscore(case[1:])
    elif case[0] == 'nesting':
        b = run_nesting(case)
    else:
        b = run_enum(case)
    return b if b and b not in ('unspecified', 'skip') else None
