"""C10 - dtml-in visits each element once, in order, with correct sequence
variables.  Oracle: the per-element variable model (vf.model.SeqVars),
written from the dtml-in documentation."""
import collections
import re

from vf import model
from vf.engine import Acc, hyp_run, shrink_failures

ID = 'C10'
RULE = ('Hypothesis: sequences of length 0..12 given as list / tuple / '
        'generator / iterator / lazy __getitem__ class, elements objects / '
        'mappings / (key, object) / (key, string) pairs / strings / ints, '
        'attribute x drawn with runs of equal values; options: every '
        'combination of mapping, no_push_item, prefix, reverse, sort (unique '
        'keys), unbatched or start/size batch, else branch; three syntaxes.  '
        'The body dumps every documented variable in a parse-back format '
        '(booleans through dtml-if) under the fixed names and, with a '
        'prefix, the p_... aliases; probes after the end tag.  Non-trivial: '
        'length >= 2 with a run of equal x of length >= 2, or a prefix, or '
        '2-tuples.  Distinct = hash of the case.')
RULE += (
         'Also: str-subclass and two-field tuple-subclass elements. ')
RULE += (
         'A second grouping variable asked around the first. ')
RULE += ('Round 9: the same compiled template rendered again from inside the loop body. ')
RULE += ('Round 10: (key, value) pairs whose values are tuples of two; sequence-var-x over elements of which some have no x. ')
ASSUMPTIONS = [
    'sequence-key is only defined for 2-tuple elements; letters only for '
    'index < 26; sort keys are unique, or tie in which case a sort keeps '
    'the input order of the ties and reverse mirrors the sorted order (the '
    'other comparison functions and key kinds are C13)',
    'batch window arithmetic is C11; here start/size with orphan=0 only',
]


ATTR_NAMES = ['x', 'x', 'x', 'number', 'key', 'item', 'length', 'even',
              'odd', 'letter', 'Letter', 'roman', 'Roman', 'index', 'start',
              'end', 'var', 'size', 'query', 'count', 'batches', 'x_y']


class El:
    def __init__(self, idn, x, k, an='x'):
        self.idn, self.x, self.k = idn, x, k
        setattr(self, an, x)

    def __repr__(self):
        return 'E%d' % self.idn


class StrEl(str):
    """A text element that also has attributes (a str subclass)."""

    def __new__(cls, s, x):
        self = str.__new__(cls, s)
        self.x = x
        return self


class Pt(collections.namedtuple('Pt', 'x idn')):
    """A record with two fields: a tuple subclass, not a (key, value)
    pair."""


class Lazy:
    def __init__(self, items):
        self._items = items

    def __getitem__(self, i):
        return self._items[i]

    def __len__(self):
        return len(self._items)


class Boom:
    """Renders as '' but raises on its (at+1)-th call of a rendering."""

    def __init__(self, at):
        self.at, self.n = at, 0

    def __call__(self):
        self.n += 1
        if self.at is not None and self.n == self.at + 1:
            raise ValueError('body fails on displayed element %d' % self.at)
        return ''


class Reenter(Boom):
    """Renders as ''; on its (at+1)-th call it renders the same compiled
    template again, over another sequence (a page that shows a sub-listing
    through the template it is itself rendered with)."""

    def __init__(self, at, tmpl, other):
        Boom.__init__(self, None)
        self.k, self.tmpl, self.other = at, tmpl, other
        self.busy = False

    def __call__(self):
        self.n += 1
        if self.n == self.k + 1 and not self.busy:
            self.busy = True
            try:
                self.tmpl(seq=list(self.other), x='INNERX', boom=Boom(None))
            except Exception:
                pass
            finally:
                self.busy = False
        return ''


VALUED = ['item', 'index', 'number', 'letter', 'Letter', 'roman', 'Roman',
          'length']
BOOLS = ['even', 'odd', 'start', 'end']


def open_close(sx, name, args):
    if sx == 'dtml':
        return '<dtml-%s %s>' % (name, args), '</dtml-%s>' % name
    if sx == 'ssi':
        return '<!--#%s %s-->' % (name, args), '<!--#/%s-->' % name
    return '%%(%s %s)[' % (name, args), '%%(%s)]' % name


def var(sx, name, missing=None):
    m = ' missing="%s"' % missing if missing is not None else ''
    if sx == 'dtml':
        return '<dtml-var %s%s>' % (name, m)
    if sx == 'ssi':
        return '<!--#var %s%s-->' % (name, m)
    return '%%(%s%s)s' % (name, m)


def boolean(sx, name):
    o, c = open_close(sx, 'if', name)
    els = {'dtml': '<dtml-else>', 'ssi': '<!--#else-->',
           'epfs': '%(else)['}[sx]
    return o + '1' + els + '0' + c


def build_source(case):
    sx = case['syntax']
    opts = case['opts']
    elk = case['elkind']
    args = ['seq']
    for o in ('mapping', 'no_push_item', 'reverse'):
        if opts.get(o):
            args.append(o)
    if opts.get('prefix'):
        args.append('prefix=%s' % opts['prefix'])
    if opts.get('sort'):
        args.append('sort=k' if elk in ('obj', 'map', 'pair-obj') else
                    'sort=""' if False else 'sort=sequence-item')
    if opts.get('batch'):
        args.append('start=%d size=%d orphan=0' % tuple(opts['batch']))
    o, c = open_close(sx, 'in', ' '.join(args))
    parts = ['⟪']
    if elk in ('obj', 'map', 'pair-obj'):
        # a second grouping variable, asked before and after the first one
        parts.append('⟦first-k=%s⟧' % boolean(sx, 'first-k'))
    for n in VALUED:
        parts.append('⟦%s=%s⟧' % (n, var(sx, 'sequence-' + n)))
    for n in BOOLS:
        parts.append('⟦%s=%s⟧' % (n, boolean(sx, 'sequence-' + n)))
    if elk.startswith('pair'):
        parts.append('⟦key=%s⟧' % var(sx, 'sequence-key'))
    has_x = elk in ('obj', 'map', 'pair-obj')
    an = case.get('attr', 'x')
    if elk == 'mixed':
        parts.append('⟦x=%s⟧' % var(sx, 'x', '∅'))
        # some elements have an x, others do not
        parts.append('⟦svx=%s⟧' % var(sx, 'sequence-var-x', '∅'))
    if has_x:
        parts.append('⟦var-x=%s⟧' % var(sx, 'sequence-var-' + an))
        parts.append('⟦first-x=%s⟧' % boolean(sx, 'first-' + an))
        parts.append('⟦last-x=%s⟧' % boolean(sx, 'last-' + an))
        parts.append('⟦last-k=%s⟧' % boolean(sx, 'last-k'))
        parts.append('⟦first-x2=%s⟧' % boolean(sx, 'first-' + an))
        parts.append('⟦x=%s⟧' % var(sx, 'x', '∅'))
    p = opts.get('prefix')
    if p:
        for n in VALUED:
            parts.append('⟦p_%s=%s⟧' % (n, var(sx, '%s_%s' % (p, n))))
        for n in BOOLS:
            parts.append('⟦p_%s=%s⟧' % (n, boolean(sx, '%s_%s' % (p, n))))
        if elk.startswith('pair'):
            parts.append('⟦p_key=%s⟧' % var(sx, '%s_key' % p))
    parts.append('⟫')
    if case.get('raise_at') is not None:
        parts.append(var(sx, 'boom'))
    elif case.get('reenter') is not None:
        parts.insert(0, var(sx, 'boom'))
    body = ''.join(parts)
    els = ''
    if opts.get('else'):
        els = {'dtml': '<dtml-else>', 'ssi': '<!--#else-->',
               'epfs': '%(else)['}[sx] + 'EMPTY'
    after = '|after:' + var(sx, 'sequence-item', '∅') + \
        var(sx, 'sequence-index', '∅') + var(sx, 'x', '∅')
    if p:
        after += var(sx, '%s_item' % p, '∅')
    if case.get('raise_at') is not None:
        # the loop runs inside let + try: a body that fails on some element
        # is caught outside the loop; nothing may stay bound afterwards
        lo, lc = open_close(sx, 'let', 'tmp=x')
        to, tc = open_close(sx, 'try', '')
        to = to.replace(' ', '')
        exc = {'dtml': '<dtml-except>', 'ssi': '<!--#except-->',
               'epfs': '%(except)['}[sx]
        return lo + to + o + body + els + c + exc + 'CAUGHT' + tc + \
            '|in-let:' + var(sx, 'sequence-item', '∅') + var(sx, 'tmp', '∅') \
            + lc + after + var(sx, 'tmp', '∅')
    return o + body + els + c + after


def elements(case):
    xs = case['xs']
    ks = case['ks']
    elk = case['elkind']
    out = []
    for i, x in enumerate(xs):
        k = ks[i % len(ks)] * 100 + i if ks else i
        if case.get('ties') and elk in ('obj', 'map', 'pair-obj'):
            # equal sort keys: a sort keeps their input order, reverse
            # mirrors the sorted order
            k = ks[i % len(ks)] % 3
        an = case.get('attr', 'x')
        if elk == 'obj':
            out.append(El(i, x, k, an))
        elif elk == 'map':
            out.append({'idn': i, 'x': x, 'k': k, an: x})
        elif elk == 'pair-obj':
            out.append(('key%02d' % k, El(i, x, k, an)))
        elif elk == 'pair-str':
            out.append(('key%02d' % k, 'str%d' % i))
        elif elk == 'pair-tuple':
            # (key, value) pairs whose values are themselves tuples of two
            # (what items() of a dictionary of coordinates gives)
            out.append(('key%02d' % k, ('v%d' % i, i)))
        elif elk == 'str':
            out.append('s%02d_%d' % (k, i))
        elif elk == 'optint':
            # numbers and None elements
            out.append(None if x == 0 else k)
        elif elk == 'mixed':
            # heterogeneous: object / string / number / pair by position
            out.append([El(i, x, k), 'm%d' % i, k,
                        ('mk%d' % i, El(i, x, k)), StrEl('se%d' % i, x),
                        Pt(x, i)][(x + 2 * i) % 6])
        else:
            out.append(k)
    return out


def as_sequence(kind, items):
    if kind == 'list':
        return list(items)
    if kind == 'tuple':
        return tuple(items)
    if kind == 'gen':
        return (x for x in items)
    if kind == 'iter':
        return iter(list(items))
    return Lazy(list(items))


def shown(v):
    """String form of a value as dtml-var inserts it."""
    return str(v)


def expected(case):
    items = elements(case)
    opts = case['opts']
    elk = case['elkind']
    order = list(items)
    if opts.get('sort'):
        if elk in ('obj', 'pair-obj'):
            key = (lambda e: (e[1] if isinstance(e, tuple) else e).k)
            if elk == 'pair-obj':
                key = lambda e: e[1].k        # noqa
        elif elk == 'map':
            key = lambda e: e['k']            # noqa
        elif elk in ('pair-str', 'pair-tuple'):
            key = lambda e: e[0]              # noqa
        else:
            key = lambda e: e                 # noqa
        order = sorted(order, key=key)
    if opts.get('reverse'):
        order = order[::-1]
    L = len(order)
    if L == 0:
        return ('EMPTY' if opts.get('else') else ''), []
    first, last = 0, L - 1
    if opts.get('batch'):
        st_, sz = opts['batch']
        first = min(st_, L) - 1
        last = min(first + sz, L) - 1
    sv = model.SeqVars(order, first, last, mapping=bool(opts.get('mapping')),
                       prefix=opts.get('prefix'))
    rows = []
    has_x = elk in ('obj', 'map', 'pair-obj')
    for i in range(first, last + 1):
        sv.index = i
        row = {}
        for n in VALUED:
            row[n] = shown(sv.get('sequence-' + n))
        for n in BOOLS:
            row[n] = '1' if sv.get('sequence-' + n) else '0'
        if elk.startswith('pair'):
            row['key'] = shown(sv.get('sequence-key'))
        if has_x:
            an = case.get('attr', 'x')
            row['var-x'] = shown(sv.get('sequence-var-' + an))
            row['first-x'] = '1' if sv.get('first-' + an) else '0'
            row['last-x'] = '1' if sv.get('last-' + an) else '0'
            row['first-k'] = '1' if sv.get('first-k') else '0'
            row['last-k'] = '1' if sv.get('last-k') else '0'
            row['first-x2'] = row['first-x']
            e = sv.element(i)
            row['x'] = 'OUTERX' if opts.get('no_push_item') else shown(
                e['x'] if isinstance(e, dict) else e.x)
        if elk == 'mixed':
            e = sv.element(i)
            row['x'] = shown(e.x) if isinstance(e, (El, StrEl, Pt)) and \
                not opts.get('no_push_item') else 'OUTERX'
            if not isinstance(e, Pt):
                # (whether a record of two fields counts as a pair here is
                # not something the statement says)
                row['svx'] = shown(e.x) if hasattr(e, 'x') else '∅'
        p = opts.get('prefix')
        if p:
            for n in VALUED:
                row['p_' + n] = shown(sv.get('%s_%s' % (p, n)))
            for n in BOOLS:
                row['p_' + n] = '1' if sv.get('%s_%s' % (p, n)) else '0'
            if elk.startswith('pair'):
                row['p_key'] = shown(sv.get('%s_key' % p))
        rows.append(row)
    return None, rows


ROW = re.compile(r'⟪(.*?)⟫', re.S)
CELL = re.compile(r'⟦([^=⟧]+)=(.*?)⟧', re.S)


def check(case):
    from DocumentTemplate import HTML, String
    src = build_source(case)
    items = elements(case)
    seq = as_sequence(case['seqkind'], items)
    cls = String if case['syntax'] == 'epfs' else HTML
    ra = case.get('raise_at')
    boom = Boom(ra)
    tmpl = cls(src)
    if ra is None and case.get('reenter') is not None and items:
        other = list(items[::-1][:3]) if case['seqkind'] != 'lazy' else \
            list(items[:2])
        boom = Reenter(case['reenter'], tmpl, other)
    before = list(items)
    try:
        out = tmpl(seq=seq, x='OUTERX', boom=boom)
    except Exception as e:
        return ('exception:%s' % type(e).__name__,
                '%r on %r raised %r' % (src, items, e))
    if case['seqkind'] in ('list', 'tuple', 'lazy'):
        # the caller's sequence is only read: same elements, same order,
        # and rendering it again shows the same thing
        now = list(seq) if case['seqkind'] != 'lazy' else list(seq._items)
        if len(now) != len(before) or any(a is not b for a, b in
                                          zip(now, before)):
            return ('sequence-modified', '%r changed the sequence from %r '
                    'to %r' % (src, before, now))
        boom.n = 0
        try:
            out2 = tmpl(seq=seq, x='OUTERX', boom=boom)
        except Exception as e:
            out2 = repr(e)
        if out2 != out:
            return ('second-render-differs', '%r on %r: first %r, second '
                    '%r' % (src, items, out[:200], out2[:200]))
    try:
        empty_text, rows = expected(case)
    except model.Unspecified:
        return 'unspecified'
    body, _, after = out.rpartition('|after:')
    p = case['opts'].get('prefix')
    exp_after = '∅∅OUTERX' + ('∅' if p else '')
    if ra is not None:
        exp_after += '∅'
        body, _, inlet = body.rpartition('|in-let:')
        if inlet != '∅OUTERX':
            return ('binding-visible-after-end-tag',
                    '%r on %r: after the loop (inside the let) got %r, '
                    'expected %r' % (src, items, inlet, '∅OUTERX'))
        if ra < len(rows or ()):
            if body != 'CAUGHT':
                return ('failing-body-not-propagated', '%r on %r (body '
                        'fails on displayed element %d): rendered %r' % (
                            src, items, ra, body[:200]))
            if after != exp_after:
                return ('binding-visible-after-end-tag',
                        '%r on %r: body failed on displayed element %d and '
                        'the error was caught outside the loop; afterwards '
                        'got %r expected %r' % (src, items, ra, after,
                                                exp_after))
            return None
    if after != exp_after:
        return ('binding-visible-after-end-tag',
                '%r: after the end tag got %r expected %r' % (src, after,
                                                              exp_after))
    if empty_text is not None:
        if body != empty_text:
            return ('empty-sequence', '%r rendered %r expected %r' % (
                src, body, empty_text))
        return None
    got_rows = [dict(CELL.findall(r)) for r in ROW.findall(body)]
    if len(got_rows) != len(rows):
        return ('element-count', '%r on %r: %d bodies rendered, expected %d\n'
                '%r' % (src, items, len(got_rows), len(rows), body[:300]))
    if ''.join('⟪' + r + '⟫' for r in ROW.findall(body)) != body:
        return ('extra-text', '%r rendered %r' % (src, body[:300]))
    for i, (g, e) in enumerate(zip(got_rows, rows)):
        for name in e:
            if g.get(name) != e[name]:
                return ('variable:%s' % name.replace('p_', 'prefix_'),
                        '%r on %r: displayed element %d: %s = %r, expected '
                        '%r\n row %r' % (src, items, i, name, g.get(name),
                                         e[name], g))
    return None


def strategy():
    from hypothesis import strategies as st

    def fix(c):
        o = c['opts']
        if c['elkind'] == 'map':
            o['mapping'] = True
        else:
            o['mapping'] = False
        if c['elkind'] in ('mixed', 'optint'):
            o['sort'] = False
        if not c['xs']:
            o['batch'] = None if not o.get('batch') else o['batch']
        return c
    opts = st.fixed_dictionaries(dict(
        no_push_item=st.booleans(), prefix=st.sampled_from([None, None, 'p',
                                                            'seq', 'pq_1']),
        reverse=st.booleans(), sort=st.booleans(),
        batch=st.one_of(st.none(), st.none(),
                        st.tuples(st.integers(1, 8), st.integers(1, 6))),
        **{'else': st.booleans()}))
    return st.fixed_dictionaries(dict(
        syntax=st.sampled_from(['dtml', 'ssi', 'epfs']),
        seqkind=st.sampled_from(['list', 'tuple', 'gen', 'iter', 'lazy']),
        elkind=st.sampled_from(['obj', 'obj', 'map', 'pair-obj', 'pair-str',
                                'pair-tuple',
                                'str', 'int', 'mixed', 'mixed', 'optint']),
        xs=st.lists(st.integers(0, 2), min_size=0, max_size=12),
        ks=st.permutations(list(range(12))),
        raise_at=st.one_of(st.none(), st.none(), st.integers(0, 5)),
        reenter=st.one_of(st.none(), st.none(), st.integers(0, 3)),
        ties=st.booleans(), attr=st.sampled_from(ATTR_NAMES),
        opts=opts)).map(fix)


def nontrivial(case):
    xs = case['xs']
    run = any(a == b for a, b in zip(xs, xs[1:]))
    return (len(xs) >= 2 and run) or bool(case['opts'].get('prefix')) or \
        (case['elkind'].startswith('pair') and len(xs) >= 1)


SILENT_BODIES = ['', '<dtml-call "1">', '<dtml-if nosuch>x</dtml-if>',
                 '<dtml-var blank>', '<dtml-comment>c</dtml-comment>',
                 '<dtml-unless "1">u</dtml-unless>',
                 '<dtml-in none>y</dtml-in>', '<dtml-let q=blank></dtml-let>']
SILENT_OPTS = ['', 'mapping', 'size=2 start=1 orphan=0', 'sort=k',
               'reverse', 'no_push_item', 'prefix=p', 'size=1 start=2']


def check_silent(case):
    """The else body is rendered exactly when the sequence is empty: a
    non-empty sequence whose body produces no text renders ''."""
    from DocumentTemplate import HTML
    _, L, bi, oi = case
    opts = SILENT_OPTS[oi]
    items = [dict(k=i, x=i) for i in range(L)] if 'mapping' in opts else \
        [El(i, i, i) for i in range(L)]
    src = '[<dtml-in seq %s>%s<dtml-else>ELSE</dtml-in>]' % (
        opts, SILENT_BODIES[bi])
    try:
        out = HTML(src)(seq=items, blank='', none=[])
    except Exception as e:
        return ('silent-exception:%s' % type(e).__name__,
                '%r on %d elements raised %r' % (src, L, e))
    exp = '[ELSE]' if L == 0 else '[]'
    if 'start=2' in opts and L == 1:
        return None               # start beyond the end: C11's business
    if out != exp:
        return ('else-on-non-empty-sequence' if L else 'else-missing',
                '%r on %d elements rendered %r, expected %r' % (
                    src, L, out, exp))
    return None


def plan(tier, seed):
    n = 1500 if tier == 'quick' else 8000
    return [dict(seed=seed * 1000 + i, n=n) for i in range(16)] + \
        [dict(silent=True)]


def run_shard(shard):
    acc = Acc(ID, sample_every=61)
    if shard.get('silent'):
        for L in range(0, 4):
            for bi in range(len(SILENT_BODIES)):
                for oi in range(len(SILENT_OPTS)):
                    case = ['silent', L, bi, oi]
                    bad = check_silent(case)
                    acc.case(case, L > 0, klass='silent-body',
                             distinct_by_construction=True)
                    if bad:
                        acc.fail(bad[0], case, bad[1])
        return acc.result()
    strat = strategy()

    def one(case):
        bad = check(case)
        acc.case(case, nontrivial(case), klass=[
            'el:' + case['elkind'], 'seq:' + case['seqkind']] + (
                ['unspecified'] if bad == 'unspecified' else []))
        if bad and bad != 'unspecified':
            acc.fail(bad[0], case, bad[1])
    hyp_run(strat, one, shard['n'], shard['seed'])

    def bucket_of(c):
        b = check(c)
        return b[0] if b and b != 'unspecified' else None
    shrink_failures(acc, strat, bucket_of, shard['seed'])
    return acc.result()


def replay(case):
    if isinstance(case, list) and case and case[0] == 'silent':
        return check_silent(case)
    b = check(case)
    return b if b and b != 'unspecified' else None
