"""C11 - batch windows stay in range, tile the sequence and link consistently.

Oracle: an independent window model written from the property statement
(vf-side arithmetic only; nothing is imported from DT_In / DT_InSV).
"""
import itertools
import re

from vf.engine import Acc, hyp_run, shrink_failures

ID = 'C11'
EXHAUSTIVE = ('thorough',)
RULE = ('enumeration of (length, start, end, size, orphan, overlap, how the '
        'parameters are passed: int variables / numeric-string variables / '
        'literals / previous|next flag forms) plus next/previous walks plus '
        'Hypothesis-drawn larger values; each case renders one batched '
        'dtml-in whose body dumps item, start/end flags and the '
        'previous/next batch announcements, compared with an independent '
        'window model.  Non-trivial: length>=1 and (window is a proper '
        'sub-range, or the orphan rule / an explicit end beyond the length / '
        'an overlap changes the result), or a walk with >=2 windows.  '
        'Enumerated tuples are distinct by construction.')
RULE += (
         'Walks over tuples / own sequence classes and with the '
         'template re-entered from the body. ')
ASSUMPTIONS = [
    'parameters <= 0 mean "not given" (the statement requires 1 <= start)',
    'when size < 1 the statement fixes no size: the reported '
    'sequence-step-size is read back and only the relations are checked',
    'with only end given the statement does not fix start: only range, end, '
    'flags and announcements are checked',
    'announced next start is clamped to >= 1 and previous end to <= length',
]

BODY = ('[<dtml-var sequence-item>|<dtml-if sequence-start>S</dtml-if>|'
        '<dtml-if sequence-end>E</dtml-if>|'
        '<dtml-if previous-sequence>P<dtml-var previous-sequence-start-number>'
        ';<dtml-var previous-sequence-end-number>;'
        '<dtml-var previous-sequence-size></dtml-if>|'
        '<dtml-if next-sequence>N<dtml-var next-sequence-start-number>;'
        '<dtml-var next-sequence-end-number>;<dtml-var next-sequence-size>'
        '</dtml-if>|<dtml-var sequence-step-size>]<dtml-var hook missing="">')
ROW = re.compile(r'\[(-?\d+)\|(S?)\|(E?)\|(?:P(-?\d+);(-?\d+);(-?\d+))?\|'
                 r'(?:N(-?\d+);(-?\d+);(-?\d+))?\|(-?\d+)\]')

_T = {}


def template(kind, params=None):
    from DocumentTemplate import HTML
    key = (kind, params)
    t = _T.get(key)
    if t is None:
        if kind == 'var':
            src = ('<dtml-in s start=st end=en size=sz orphan=orp overlap=ov>'
                   '%s<dtml-else>EMPTY</dtml-in>' % BODY)
        elif kind == 'lit':
            src = ('<dtml-in s start=%d end=%d size=%d orphan=%d overlap=%d>'
                   '%s<dtml-else>EMPTY</dtml-in>' % (params + (BODY,)))
        elif kind in ('var-reverse', 'var-sort', 'var-sort-reverse'):
            # the window is cut from the reversed / sorted sequence
            src = ('<dtml-in s %s start=st end=en size=sz orphan=orp '
                   'overlap=ov>%s<dtml-else>EMPTY</dtml-in>' % (
                       kind[4:].replace('-', ' '), BODY))
        elif kind == 'varnum':
            # rows identified by their number: the elements themselves may
            # be None or other false values
            src = ('<dtml-in s start=st end=en size=sz orphan=orp overlap=ov>'
                   '%s<dtml-else>EMPTY</dtml-in>' % BODY.replace(
                       '<dtml-var sequence-item>',
                       '<dtml-var sequence-number>'))
        elif kind in ('previous', 'next'):
            src = ('<dtml-in s %s start=st end=en size=sz orphan=orp '
                   'overlap=ov>{<dtml-var %s-sequence-start-number>;'
                   '<dtml-var %s-sequence-end-number>;'
                   '<dtml-var %s-sequence-size>}<dtml-else>NONE</dtml-in>'
                   % (kind, kind, kind, kind))
        t = HTML(src)
        if kind != 'lit' or len(_T) < 5000:
            _T[key] = t
    return t


FALSY = (None, 0, '', 0.0, (), None, False)


def render(L, start, end, size, orphan, overlap, mode):
    seq = list(range(1, L + 1))
    if mode.endswith('falsy'):
        seq = [FALSY[(i * 3) % len(FALSY)] for i in range(L)]
        mode = {'falsy': 'varnum', 'next-falsy': 'next',
                'previous-falsy': 'previous'}[mode]
    try:
        if mode == 'varnum':
            return template('varnum')(s=seq, st=start, en=end, sz=size,
                                      orp=orphan, ov=overlap)
        if mode == 'lit':
            return template('lit', (start, end, size, orphan, overlap))(s=seq)
        if mode == 'str':
            return template('var')(s=seq, st=str(start), en=str(end),
                                   sz=str(size), orp=str(orphan),
                                   ov=str(overlap))
        if mode in ('previous', 'next'):
            return template(mode)(s=seq, st=start, en=end, sz=size,
                                  orp=orphan, ov=overlap)
        return template('var')(s=seq, st=start, en=end, sz=size,
                               orp=orphan, ov=overlap)
    except Exception as e:       # noqa: rendering may raise; classified below
        return e


def expected_window(L, start, end, size, orphan, step):
    """(s, e) from the statement; s may be None when it is not fixed."""
    if start > 0:
        s = min(start, L)
        if end > 0:
            e = min(max(end, s), L)
        else:
            e = s + step - 1
            if e > L or L - e < orphan:
                e = L
        return s, e
    if end > 0:
        return None, min(end, L)
    e = step
    if e > L or L - e < orphan:
        e = L
    return 1, e


def check(case):
    """None when the property holds, else (bucket, message)."""
    L, start, end, size, orphan, overlap, mode = case
    out = render(L, start, end, size, orphan, overlap, mode)
    if mode in ('next-falsy', 'previous-falsy'):
        case = case[:6] + [mode.split('-')[0]]
        r = check_flag_form(case, out)
        return (r[0] + ':falsy-elements', r[1]) if r else None
    if isinstance(out, Exception):
        where = []
        if start > 0:
            where.append('start>0')
        if end > L:
            where.append('end>length')
        return ('exception:%s:%s' % (type(out).__name__, ','.join(where)),
                '%r raised %r' % (case, out))
    if mode in ('previous', 'next'):
        return check_flag_form(case, out)
    if L == 0:
        if out != 'EMPTY':
            return 'empty', 'empty sequence rendered %r' % out[:200]
        return None
    rows = ROW.findall(out)
    if not rows or len(rows) != out.count('[') or \
            sum(len(m.group(0)) for m in ROW.finditer(out)) != len(out):
        return 'unparsable', out[:300]
    items = [int(r[0]) for r in rows]
    s_, e_ = items[0], items[-1]
    if items != list(range(s_, e_ + 1)) or not (1 <= s_ <= e_ <= L):
        return 'range', '%r displayed %r' % (case, items)
    step = int(rows[-1][9])
    if size >= 1 and step != size:
        return 'stepsize', '%r reports step size %d' % (case, step)
    xs, xe = expected_window(L, start, end, size, orphan, step)
    if xs is not None and s_ != xs:
        return 'window-start', '%r shows %d..%d, expected start %d' % (
            case, s_, e_, xs)
    if e_ != xe:
        return 'window-end', '%r shows %d..%d, expected end %d' % (
            case, s_, e_, xe)
    if size >= 1 and not (start > 0 and end > 0) and \
            len(items) > size + orphan:
        # a window anchored at one side only (start, or end, or neither)
        # holds the desired number of elements, plus fewer than 'orphan'
        # absorbed ones (documentation of size / orphan in DT_In)
        return 'window-larger-than-size+orphan', \
            '%r shows %d..%d: %d elements for size=%d orphan=%d' % (
                case, s_, e_, len(items), size, orphan)
    for i, r in enumerate(rows):
        if bool(r[1]) != (i == 0):
            return 'startflag', '%r row %d sequence-start=%r' % (case, i, r[1])
        if bool(r[2]) != (i == len(rows) - 1):
            return 'endflag', '%r row %d sequence-end=%r' % (case, i, r[2])
        if r[3] and i != 0:
            return 'prevflag', '%r previous-sequence on row %d' % (case, i)
        if r[6] and i != len(rows) - 1:
            return 'nextflag', '%r next-sequence on row %d' % (case, i)
    first, last = rows[0], rows[-1]
    if bool(first[3]) != (s_ > 1):
        return 'prevflag', '%r shows %d..%d previous-sequence=%r' % (
            case, s_, e_, bool(first[3]))
    if bool(last[6]) != (e_ < L):
        return 'nextflag', '%r shows %d..%d next-sequence=%r' % (
            case, s_, e_, bool(last[6]))
    if last[6]:
        ns, ne, nz = int(last[6]), int(last[7]), int(last[8])
        if ns != max(1, e_ + 1 - overlap):
            return 'nextstart', '%r shows ..%d, next start %d' % (case, e_, ns)
        if not (1 <= ns <= ne <= L) or nz != ne - ns + 1:
            return 'nextrange', '%r next batch %d..%d size %d' % (
                case, ns, ne, nz)
    if first[3]:
        ps, pe, pz = int(first[3]), int(first[4]), int(first[5])
        if pe != min(L, s_ - 1 + overlap):
            return 'prevend', '%r shows %d.., previous end %d' % (case, s_, pe)
        if not (1 <= ps <= pe <= L) or pz != pe - ps + 1:
            return 'prevrange', '%r previous batch %d..%d size %d' % (
                case, ps, pe, pz)
    return None


def check_flag_form(case, out):
    """<dtml-in s previous ...> / <dtml-in s next ...>: body rendered once
    exactly when a previous / next batch exists, announcing it."""
    L, start, end, size, orphan, overlap, mode = case
    if L == 0:
        return None if out == 'NONE' else ('flagform-empty', out[:100])
    # the window itself comes from the plain form (checked separately)
    plain = render(L, start, end, size, orphan, overlap, 'var')
    if isinstance(plain, Exception):
        return None
    rows = ROW.findall(plain)
    if not rows:
        return None
    s_, e_ = int(rows[0][0]), int(rows[-1][0])
    exists = (s_ > 1) if mode == 'previous' else (e_ < L)
    if not exists:
        if out != 'NONE':
            return ('flagform-%s' % mode,
                    '%r window %d..%d but rendered %r' % (case, s_, e_, out))
        return None
    m = re.fullmatch(r'\{(-?\d+);(-?\d+);(-?\d+)\}', out)
    if not m:
        return ('flagform-%s' % mode,
                '%r window %d..%d rendered %r' % (case, s_, e_, out[:100]))
    a, b, z = map(int, m.groups())
    if mode == 'previous':
        ok = b == min(L, s_ - 1 + overlap)
    else:
        ok = a == max(1, e_ + 1 - overlap)
    if not ok or not (1 <= a <= b <= L) or z != b - a + 1:
        return ('flagform-%s-link' % mode,
                '%r window %d..%d announces %d..%d size %d' % (
                    case, s_, e_, a, b, z))
    return None


def nontrivial(case):
    L, start, end, size, orphan, overlap, mode = case
    if L < 1:
        return False
    step = size if size >= 1 else 7
    xs, xe = expected_window(L, start, end, size, orphan, step)
    if (xs or 1) > 1 or xe < L:
        return True
    if end > L or overlap > 0 and (xe < L or (xs or 1) > 1):
        return True
    # orphan rule changed the result
    if end <= 0 and size >= 1 and (start if start > 0 else 1) + size - 1 < L:
        return True
    return False


class SeqLike:
    """A sequence class of the application's own (indexable also from the
    end, like a tuple)."""

    def __init__(self, items):
        self._items = tuple(items)

    def __getitem__(self, i):
        return self._items[i]

    def __len__(self):
        return len(self._items)

    def __eq__(self, other):
        return isinstance(other, SeqLike) and self._items == other._items


def walk(L, size, orphan, overlap, variant='var', container='list',
         reenter=False):
    """Follow next-sequence-start-number from 1, then previous-... back.
    variant: the sequence is handed over reversed / shuffled and the tag
    reverses / sorts it; the same list object is used for every step."""
    seq = list(range(1, L + 1))
    given = {'var': seq, 'var-reverse': seq[::-1],
             'var-sort': seq[1::2] + seq[0::2],
             'var-sort-reverse': seq[0::2] + seq[1::2][::-1]}[variant]
    if variant == 'var-sort-reverse':
        seq = seq[::-1]
    if container != 'list':
        given = {'tuple': tuple, 'seqlike': SeqLike}[container](given)
    given_copy = {'list': list, 'tuple': tuple,
                  'seqlike': SeqLike}[container](given)
    expected_seq, seq = seq, given
    t = template(variant)
    hook = ''
    if reenter:
        # while an element renders, the same compiled template is rendered
        # once more with other batch parameters (a template that calls
        # itself for the sub-folders of an entry)
        busy = []

        def hook():
            if not busy:
                busy.append(1)
                try:
                    t(s=list(range(40)), st=2, en=0, sz=size + 3,
                      orp=orphan + 1, ov=0, hook='')
                except Exception:
                    pass
                finally:
                    busy.pop()
            return ''
    start, windows, steps = 1, [], 0
    if L == 0:
        return None
    while True:
        steps += 1
        if steps > L + 1:
            return 'walk-no-termination', 'L=%d size=%d orphan=%d overlap=%d' \
                % (L, size, orphan, overlap)
        try:
            out = t(s=seq, st=start, en=0, sz=size, orp=orphan, ov=overlap,
                    hook=hook)
        except Exception as e:
            return 'walk-exception:%s' % type(e).__name__, repr(e)
        rows = ROW.findall(out)
        if not rows:
            return 'walk-unparsable', out[:200]
        items = [int(r[0]) for r in rows]
        windows.append(items)
        if rows[-1][6]:
            start = int(rows[-1][6])
        else:
            break
    msg = 'L=%d size=%d orphan=%d overlap=%d windows=%r' % (
        L, size, orphan, overlap, windows)
    flat = windows[0][:]
    for w in windows[1:]:
        flat.extend(w[overlap:])
    if flat != expected_seq:
        return 'walk-cover' + ('' if variant == 'var' else ':' + variant), \
            msg
    if variant != 'var':
        if given != given_copy:
            return 'walk-input-modified', msg
        return None
    for a, b in zip(windows, windows[1:]):
        if len(set(a) & set(b)) != overlap or b[0] != a[-1] + 1 - overlap:
            return 'walk-overlap', msg
    # walk back from the last window
    cur, steps = windows[-1][0], 0
    while cur > 1:
        steps += 1
        if steps > L + 1:
            return 'walkback-no-termination', msg
        out = t(s=seq, st=cur, en=0, sz=size, orp=orphan, ov=overlap,
                hook=hook)
        rows = ROW.findall(out)
        if not rows or not rows[0][3]:
            return 'walkback-missing-previous', msg + ' at start %d' % cur
        nxt = int(rows[0][3])
        if not nxt < cur:
            return 'walkback-no-progress', msg + ' at start %d' % cur
        cur = nxt
    return None


R_START = list(range(-1, 17))
R_END = list(range(-1, 17))
R_SIZE = list(range(-1, 8))
R_ORPH = list(range(0, 5))
R_OVER = list(range(0, 4))


def plan(tier, seed):
    lengths = list(range(15)) if tier == 'thorough' else [0, 1, 2, 3, 5, 8, 14]
    shards = []
    for L in lengths:
        for st in (R_START[0::2], R_START[1::2]):
            shards.append(dict(kind='enum', L=L, starts=st))
    shards[0:0] = [dict(kind='walks', lengths=[14, 0, 1, 2, 3]),
                   dict(kind='walks', lengths=[13, 4, 5, 6]),
                   dict(kind='walks', lengths=[12, 7, 8]),
                   dict(kind='walks', lengths=[11, 9, 10])]
    n = 16 if tier == 'thorough' else 4
    for i in range(n):
        shards.append(dict(kind='random', seed=seed * 1000 + i,
                           n=6000 if tier == 'thorough' else 1500))
    return shards


def big_strategy():
    from hypothesis import strategies as st
    p = st.integers(-2, 600)
    return st.tuples(st.integers(0, 500), p, p, st.integers(-2, 600),
                     st.integers(0, 600), st.integers(0, 600),
                     st.sampled_from(['var', 'str', 'previous', 'next']))


def run_shard(shard):
    acc = Acc(ID, sample_every=9973)
    if shard['kind'] == 'enum':
        L = shard['L']
        for start, end, size, orphan, overlap in itertools.product(
                shard['starts'], R_END, R_SIZE, R_ORPH, R_OVER):
            modes = ['var']
            k = (start + 3 * end + 5 * size + 7 * orphan + 11 * overlap) % 8
            if k == 0:
                modes.append('lit')
            elif k == 1:
                modes.append('str')
            elif k == 2:
                modes.append('previous')
            elif k == 3:
                modes.append('next')
            elif k == 4:
                modes.append('falsy')
            elif k == 5:
                modes.append('next-falsy')
            elif k == 6:
                modes.append('previous-falsy')
            for mode in modes:
                case = [L, start, end, size, orphan, overlap, mode]
                bad = check(case)
                acc.case(case, nontrivial(case), klass='mode:' + mode,
                         distinct_by_construction=True)
                if bad:
                    acc.fail(bad[0], case, bad[1])
    elif shard['kind'] == 'walks':
        for L in shard['lengths']:
            for size in range(1, 8):
                for orphan in R_ORPH:
                    for overlap in range(0, min(4, size)):
                        for variant in ('var', 'var-reverse', 'var-sort',
                                        'var-sort-reverse'):
                            case = ['walk', L, size, orphan, overlap] + (
                                [variant] if variant != 'var' else [])
                            bad = walk(L, size, orphan, overlap, variant)
                            acc.case(case, L > size, klass='walk:' + variant,
                                     distinct_by_construction=True)
                            if bad:
                                acc.fail(bad[0], case, bad[1])
                            if variant in ('var-sort', 'var-sort-reverse'):
                                continue
                            # other containers; a re-entered template
                            for cont, re_ in (('tuple', False),
                                              ('seqlike', False),
                                              ('list', True)):
                                case = ['walk', L, size, orphan, overlap,
                                        variant, cont, re_]
                                bad = walk(*case[1:])
                                acc.case(case, L > size, klass='walk:%s:%s%s'
                                         % (variant, cont, ':reentered'
                                            if re_ else ''),
                                         distinct_by_construction=True)
                                if bad:
                                    acc.fail(bad[0] + ':' + cont + (
                                        ':reentered' if re_ else ''), case,
                                        bad[1])
    else:
        def one(case):
            case = list(case)
            bad = check(case)
            acc.case(case, nontrivial(case), klass='random')
            if bad:
                acc.fail(bad[0], case, bad[1])
        strat = big_strategy()
        hyp_run(strat, one, shard['n'], shard['seed'])

        def bucket_of(c):
            b = check(list(c))
            return b[0] if b else None
        shrink_failures(acc, strat, bucket_of, shard['seed'])
    return acc.result()


def replay(case):
    if case and case[0] == 'walk':
        return walk(*case[1:])
    return check(list(case))
