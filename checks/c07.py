"""C07 - the three surface syntaxes compile and render identically.

Oracle: differential between the three printings of one abstract template:
(1) generic structural normal form of the compiled program, (2) rendered
outcome and call log under several namespaces; plus the entity equivalences.
"""
import copy
import itertools
import re
import types

from vf import dtml, gen, harness
from vf.engine import Acc, hyp_run, shrink_failures

ID = 'C07'
RULE = ('Hypothesis-generated abstract templates over all tags with extra '
        'attributes (var modifiers / size / etc / fmt / null / missing; in '
        'batch, sort, reverse, prefix, *_expr options; with mapping/only), '
        'printed in dtml, SSI and EPFS syntax with independent random styles '
        '(blanks, quoting, attribute order, end-tag arguments); compiled '
        'programs compared through a generic structural normal form, '
        'rendered outcomes and call logs compared under 3 namespaces; '
        'exhaustive entity equivalences for all modifier subsets of size '
        '<= 3.  Non-trivial: >= 1 block tag with a continuation and >= 1 '
        'attribute value that needs quoting in at least one syntax (or an '
        'entity with modifiers).  Distinct = hash of (ast, styles).')
RULE += (
         "Also: multi-line sources that do not compile (C06's invalid "
         'families at top level and inside blocks): exception class, '
         'message and line number agree in the three spellings. ')
RULE += (
         'Templates of a non-default encoding with bytes of that '
         'encoding in 13 contexts x 4 insertion forms. ')
RULE += ('Round 8: the dotted entity with an empty modifier list. ')
RULE += ('Round 9: long-form old-syntax variables; names like var-tag attributes and in mixed case. ')
RULE += ('Round 10: white space inside quoted attribute values. ')
ASSUMPTIONS = [
    'whether a name is written x or name=x (an expression "e" or expr="e") '
    'is recorded in the compiled attribute dictionary, so it is pinned per '
    'abstract template for the structural oracle and varied for rendering',
    'error messages quote the tag text, which legitimately differs between '
    'syntaxes: only exception classes are compared',
]

# variables spelled like tag and continuation words
WORD_NAMES = ['else', 'elif', 'except', 'finally', 'in', 'if', 'var', 'end',
              'try',
              # ... like attributes of the var tag, and in mixed case
              'size', 'url', 'upper', 'lower', 'null', 'fmt', 'etc',
              'missing', 'html_quote', 'Title', 'URL', 'vA']
CFG = gen.Config(kinds=['text', 'var', 'var', 'ent', 'call', 'if', 'if',
                        'unless', 'in', 'in', 'with', 'let', 'try', 'comment',
                        'boom', 'sub', 'raise', 'return'],
                 max_depth=3, max_items=3, literals=False,
                 var_names=gen.PLAIN_NAMES + WORD_NAMES)
# literal text that is not (the beginning of) a tag in any of the three
# syntaxes, so that the three printings stay equivalent: near-tag fragments
# without ';' (which could complete an entity) and without '(' and '#'
LIT_FRAGS = ['&dtml-', '&dtml.', '&dtml', '&', '&dt', '<', '>', '<d', '%',
             ')', ')s', '[', ']', '"', "'", 'x', ' ', '\n', '-->', '<!-',
             '%%', '100%', 'é', '<b>', '&amp', 'if', '/', '-', '.']
CFG_LIT = gen.Config(kinds=['text', 'text', 'var', 'ent', 'if', 'unless',
                            'in', 'with', 'let', 'try', 'comment'],
                     max_depth=2, max_items=4, literals=True, eol=False,
                     frag_list=LIT_FRAGS)
SYNTAXES = ('dtml', 'ssi', 'epfs')
MODS = ['html_quote', 'url_quote', 'url_quote_plus', 'url_unquote',
        'url_unquote_plus', 'newline_to_br', 'lower', 'upper', 'capitalize',
        'spacify', 'thousands_commas', 'sql_quote']

VAR_EXTRA = [[m, None] for m in MODS] + [
    ['size', '3'], ['size', '12'], ['etc', '..'], ['etc', 'a>b'],
    ['null', 'nil val'], ['missing', 'm m'], ['fmt', 'upper'],
    ['fmt', '%s!'], ['fmt', 'html-quote'], ['fmt', 'x) y'],
    ['null', ''], ['fmt', 'collection-length'],
    # punctuation that may stand unquoted in an attribute value
    ['missing', 'n\\a'], ['null', '\\'], ['etc', "~!@#$^&*+|/?.,:;'`{}[]<"],
    ['missing', "it's"], ['etc', '%'], ['null', 'a\\b\\'], ['etc', '(('],
    ['missing', '-'], ['null', '&amp;'], ['etc', ']!['], ['missing', '%(x)s'],
    # values that end like the closing delimiters of the three syntaxes
    ['missing', '/'], ['etc', 'a/'], ['null', 'n/a/'], ['missing', '-'],
    ['etc', '--'], ['null', 'x-'], ['missing', '['], ['etc', 's'],
    ['null', '//'], ['missing', '?'],
    # white space inside a (quoted) value is part of the value
    ['missing', 'a  b'], ['null', 'x\ty'], ['etc', ' ..  '],
    ['missing', 'two\nlines'], ['null', '  '], ['etc', 'a \t b'],
    ['missing', ' lead'], ['null', 'trail ']]
IN_EXTRA = [['reverse', None], ['sort', 'va'], ['sort', 'va,xi/cmp/desc'],
            ['size', '2'], ['start', '2'], ['end', '2'], ['orphan', '1'],
            ['overlap', '1'], ['sort_expr', "'va'"],
            ['reverse_expr', 'ct > 0'], ['skip_unauthorized', None],
            ['start', 'vn'], ['sort', 'va/nocase']]


def mix(p, j):
    """Spread the small integers drawn by Hypothesis over a table."""
    return ((p + 1) * 2654435761 + j * 40503) >> 5


def decorate(ast, picks):
    """Add extra attributes to var / in nodes and pin the name / expr
    spelling of every reference (plain data driven by picks)."""
    ast = copy.deepcopy(ast)
    it = itertools.cycle(picks or [0])
    for n in dtml.walk(ast):
        k = n['k']
        p = next(it)
        n['pin'] = ['short', 'long', 'short'][p % 3] if k != 'if' else [
            ['short', 'long'][(p + i) % 2] for i in range(len(n['conds']))]
        if k == 'var' and p % 2 == 0:
            opts = {o[0]: o[1] for o in n.get('opts', [])}
            for j in range(p % 4):
                name, val = VAR_EXTRA[mix(p, j) % len(VAR_EXTRA)]
                opts.setdefault(name, val)
            n['opts'] = [[a, b] for a, b in opts.items()]
        if k == 'in' and p % 3 != 0:
            opts = {o[0]: o[1] for o in n.get('opts', [])}
            for j in range(1 + p % 3):
                name, val = IN_EXTRA[mix(p, j) % len(IN_EXTRA)]
                opts.setdefault(name, val)
            if ('orphan' in opts or 'overlap' in opts) and not (
                    set(opts) & {'size', 'start', 'end'}):
                opts['size'] = '2'
            n['opts'] = [[a, b] for a, b in opts.items()]
    return ast


def namespaces():
    a = gen.base_ns()
    b = gen.base_ns()
    b.update(ct=0, cf=1, va='<a&"b\'> x_y 1234567.5', vb='', vn=0,
             s0=dict(t='list', items=[1, 2, 3]))
    c = gen.base_ns()
    c.update(va=None, vz='z', ff=dict(t='rec', id='ff', ret=1),
             ft=dict(t='rec', id='ft', ret=0))
    del c['vb']
    return [a, b, c]


NSS = namespaces()


def norm(x, depth=0):
    """Generic structural normal form of a compiled program; hard-codes no
    attribute names of the implementation (except dropping __name__, which
    holds the tag's source text)."""
    if depth > 40:
        return '<deep>'
    if isinstance(x, (str, bytes, int, float, bool)) or x is None:
        return x
    if isinstance(x, (list, tuple)):
        return [type(x).__name__] + [norm(i, depth + 1) for i in x]
    if isinstance(x, dict):
        return {str(k): norm(v, depth + 1)
                for k, v in sorted(x.items(), key=lambda kv: str(kv[0]))
                if k != '__name__'}
    if isinstance(x, types.MethodType):
        return ['method', x.__func__.__name__, norm(x.__self__, depth + 1)]
    if isinstance(x, (types.FunctionType, types.BuiltinFunctionType)):
        return ['func', x.__name__]
    if isinstance(x, re.Pattern):
        return ['re', x.pattern]
    if isinstance(x, type):
        return ['class', x.__name__]
    cls = type(x)
    if cls.__name__ == 'Eval' or hasattr(x, 'expr') and hasattr(x, 'eval') \
            and isinstance(getattr(x, 'expr', None), str):
        return ['Eval', x.expr]
    mod = cls.__module__ or ''
    if mod.startswith(('DocumentTemplate', 'TreeDisplay')):
        name = cls.__name__
        if hasattr(x, 'isDocTemp'):
            name = 'Template'       # String vs HTML section holders
        d = getattr(x, '__dict__', {})
        return ['obj', name, norm({k: v for k, v in d.items()
                                   if not k.startswith('_v_') and
                                   k not in ('raw', 'globals', '_vars')},
                                  depth + 1)]
    return ['other', cls.__name__]


def first_diff(a, b, path=''):
    if type(a) != type(b):
        return '%s: %r vs %r' % (path, a, b)
    if isinstance(a, list):
        if len(a) != len(b):
            return '%s: length %d vs %d: %r vs %r' % (path, len(a), len(b),
                                                      a, b)
        for i, (x, y) in enumerate(zip(a, b)):
            d = first_diff(x, y, '%s/%d' % (path, i))
            if d:
                return d
        return None
    if isinstance(a, dict):
        for k in sorted(set(a) | set(b)):
            if k not in a or k not in b:
                return '%s/%s: present in one only' % (path, k)
            d = first_diff(a[k], b[k], '%s/%s' % (path, k))
            if d:
                return d
        return None
    return None if a == b else '%s: %r vs %r' % (path, a, b)


def compile_norm(src, sx):
    try:
        t = harness.make_template(src, sx)
        t.cook()
        return ('ok', norm(t._v_blocks))
    except Exception as e:
        return ('exc', type(e).__name__, str(e)[:300])


def needs_quoting(ast):
    for n in dtml.walk(ast):
        for name, val in n.get('opts', ()) or ():
            if val is not None and not dtml.UNQUOTED_OK.match(str(val)) \
                    or val is not None and ('>' in str(val) or ')' in
                                            str(val)):
                return True
        ref = n.get('ref')
        if ref and ref.get('r') == 'expr':
            return True
    return False


def has_continuation(ast):
    for n in dtml.walk(ast):
        if n['k'] == 'if' and (len(n['conds']) > 1 or
                               n.get('else') is not None):
            return True
        if n['k'] == 'in' and n.get('else') is not None:
            return True
        if n['k'] == 'try':
            return True
    return False


LAST = {}


def check(case):
    fails = []
    ast = decorate(case['ast'], case['picks'])
    styles = case['styles']
    # (1) structural: pinned spellings, independent styles
    comp = {}
    srcs = {}
    for sx, stl in zip(SYNTAXES, styles):
        src, toks = dtml.print_ast(ast, sx, dtml.Style(stl))
        srcs[sx] = src
        comp[sx] = compile_norm(src, sx)
    kinds = {sx: c[0] if c[0] == 'ok' else c[1] for sx, c in comp.items()}
    LAST['compile'] = kinds['dtml']
    if len(set(kinds.values())) > 1:
        fails.append(('compile-outcome:%s' % '/'.join(
            kinds[s] for s in SYNTAXES), 'sources %r\n%r' % (srcs, {
                s: (c if c[0] != 'ok' else 'ok') for s, c in comp.items()})))
        return fails
    if comp['dtml'][0] == 'ok':
        for other in ('ssi', 'epfs'):
            d = first_diff(comp['dtml'][1], comp[other][1])
            if d:
                fails.append(('structure:dtml-vs-%s' % other,
                              'sources %r\n first difference %s' % (
                                  {'dtml': srcs['dtml'],
                                   other: srcs[other]}, d[:800])))
    # (2) rendering: spelling unpinned as well
    loose = copy.deepcopy(ast)
    for n in dtml.walk(loose):
        n.pop('pin', None)
    for ni, ns in enumerate(NSS):
        outs = {}
        for sx, stl in zip(SYNTAXES, styles):
            src, toks = dtml.print_ast(loose, sx, dtml.Style(stl[::-1]))
            out, world, _ = harness.run_impl(src, sx, ns)
            o = harness.norm_outcome(out)
            if o[0] == 'raise':
                o = o[:2]
            outs[sx] = (o, world.log, src)
            if ni == 0 and sx == 'dtml':
                LAST['render'] = o[0] if o[0] != 'raise' else \
                    'raise:' + o[1]
        for other in ('ssi', 'epfs'):
            if outs['dtml'][0] != outs[other][0]:
                fails.append(('render:dtml-vs-%s' % other,
                              'ns %d\n %r\n -> %r\n %r\n -> %r' % (
                                  ni, outs['dtml'][2], outs['dtml'][0],
                                  outs[other][2], outs[other][0])))
            elif outs['dtml'][1] != outs[other][1]:
                fails.append(('calllog:dtml-vs-%s' % other,
                              'ns %d %r: %r vs %r' % (
                                  ni, outs['dtml'][2], outs['dtml'][1],
                                  outs[other][1])))
    return fails


def check_entity(mods, name, dotted=False):
    """&dtml-n; == <dtml-var n html_quote>; &dtml.m1.m2-n; == var n m1 m2;
    the dotted form with an empty modifier list, &dtml.-n;, == var n."""
    fails = []
    ent = ('&dtml.%s-%s;' % ('.'.join(mods), name)) if mods or dotted else \
        '&dtml-%s;' % name
    opts = ' '.join(mods) if mods or dotted else 'html_quote'
    forms = dict(entity=('dtml', ent),
                 dtml=('dtml', '<dtml-var %s %s>' % (name, opts)),
                 ssi=('ssi', '<!--#var %s %s-->' % (name, opts)),
                 epfs=('epfs', '%%(%s %s)s' % (name, opts)))
    comp = {k: compile_norm(src, sx) for k, (sx, src) in forms.items()}
    for other in ('dtml', 'ssi', 'epfs'):
        a, b = comp['entity'], comp[other]
        if a[0] != b[0] or (a[0] == 'ok' and first_diff(a[1], b[1])) or \
                (a[0] == 'exc' and a[1] != b[1]):
            fails.append(('entity-structure:%s' % other,
                          '%r vs %r: %r / %r' % (ent, forms[other][1], a, b)))
    values = ['<a&"b\'> x_y 1234567.5 %41', 'plain', 7, None, '']
    for v in values:
        if name not in ('va',):
            continue
        outs = {}
        for k, (sx, src) in forms.items():
            out, _, _ = harness.run_impl(src, sx, {name: v})
            o = harness.norm_outcome(out)
            outs[k] = o[:2] if o[0] == 'raise' else o
        for other in ('dtml', 'ssi', 'epfs'):
            if outs['entity'] != outs[other]:
                fails.append(('entity-render:%s' % other,
                              '%r=%r: %r gives %r, %r gives %r' % (
                                  name, v, ent, outs['entity'],
                                  forms[other][1], outs[other])))
    return fails


def elseblock_cases():
    """Enumerated: the deprecated block <dtml-else NAME>..</dtml-else>
    directly inside if / in / try / with / let whose own name is equal to,
    a proper prefix of, an extension of, or unrelated to NAME."""
    def name(n):
        return dict(r='name', n=n)

    def eb(n):
        return dict(k='unless', ref=name(n), as_else=True, eol=['', ''],
                    body=[dict(k='text', s='E(' + n + ')')])
    outer = {
        'if': lambda n, b: dict(k='if', conds=[name(n)], bodies=[b],
                                eol=['', '', ''], **{'else': None}),
        'if-else': lambda n, b: dict(k='if', conds=[name(n)], bodies=[b],
                                     eol=['', '', ''],
                                     **{'else': [dict(k='text', s='x')]}),
        'if-elif': lambda n, b: dict(
            k='if', conds=[name(n), name('ct')],
            bodies=[b, b + [dict(k='text', s='y')]], eol=['', '', '', ''],
            **{'else': None}),
        'in': lambda n, b: dict(k='in', ref=name(n), opts=[], body=b,
                                eol=['', '', ''], **{'else': None}),
        'in-opts': lambda n, b: dict(k='in', ref=name(n),
                                     opts=[['mapping', None], ['size', '2']],
                                     body=b, eol=['', '', ''],
                                     **{'else': [dict(k='text', s='z')]}),
        'try': lambda n, b: dict(k='try', body=b, handlers=[dict(
            names=[], body=[dict(k='text', s='h')])], eol=['', '', ''],
            **{'else': None, 'finally': None}),
        'with': lambda n, b: dict(k='with', ref=name(n), mapping=False,
                                  only=False, body=b, eol=['', '']),
        'unless': lambda n, b: dict(k='unless', ref=name(n), body=b,
                                    eol=['', '']),
    }
    pairs = [('va', 'v'), ('va', 'va'), ('v', 'va'), ('va', 'vb'),
             ('ct', 'c'), ('c', 'ct'), ('s2', 's'), ('s', 's2'), ('s', 's'),
             ('cf', 'c'), ('vn', 'v')]
    for kind in sorted(outer):
        for a, b in pairs:
            if kind.startswith('in') and not a.startswith('s'):
                continue
            if kind == 'with' and a not in ('va', 'v'):
                continue
            for style_seed in range(4):
                ast = [dict(k='text', s='['),
                       outer[kind](a, [dict(k='text', s='b'), eb(b)]),
                       dict(k='text', s=']')]
                yield dict(ast=ast, picks=[1],
                           styles=[[style_seed, 2, 1, style_seed + 3],
                                   [style_seed + 1, 0, 3],
                                   [2, style_seed, 5, 1]],
                           family='elseblock:%s:%s:%s' % (kind, a, b))


def attrvalue_cases():
    """Enumerated: every attribute value of the option tables on a single
    tag, alone and next to a flag, under several styles (so that it is
    printed quoted and unquoted, first and last)."""
    for name, val in VAR_EXTRA:
        if val is None:
            continue
        for extra in ([], [['upper', None]], [['html_quote', None],
                                              ['size', '40']]):
            for k in range(6):
                node = dict(k='var', ref=dict(r='name', n='va'),
                            opts=[[name, val]] + extra)
                yield dict(ast=[dict(k='text', s='['), node,
                                dict(k='text', s=']')], picks=[1],
                           styles=[[k, 1, k + 1, 2, 1], [1, k, 1, k + 2],
                                   [k + 2, 1, 1, k]],
                           family='attrvalue:%s=%s' % (name, val))
    for name, val in IN_EXTRA:
        if val is None:
            continue
        for k in range(4):
            opts = [[name, val]]
            if name in ('orphan', 'overlap'):
                opts.append(['size', '2'])
            node = dict(k='in', ref=dict(r='name', n='s2'), opts=opts,
                        body=[dict(k='var', ref=dict(r='name', n='va'),
                                   opts=[])], eol=['', '', ''],
                        **{'else': None})
            yield dict(ast=[node], picks=[1],
                       styles=[[k, 1, k + 1, 2], [1, k, 1], [k + 2, 1, 1]],
                       family='attrvalue:in:%s=%s' % (name, val))


# ------------------------------------------------- "raises the same errors"

def error_sources():
    """Multi-line sources that do not compile: every invalid construct of
    C06's families, spread over several lines, at top level and inside
    blocks, with other tags following on later lines."""
    from checks import c06
    for rule, src in c06.invalid_families():
        if '"' in src and '>' in src.split('"', 1)[1].rsplit('"', 1)[0]:
            continue
        nl = re.sub(r'(<[^<>]*>)', lambda m: m.group(1) + '\n', src)
        for p in (0, 2):
            head = 'first\n' * p
            yield rule, head + nl + 'tail\n<dtml-var x>\n'
            yield rule, head + '<dtml-with o>\n\n' + nl + \
                '\n</dtml-with>\n<dtml-var x>\nend'
            yield rule, head + '<dtml-if a>\n<dtml-var x>\n<dtml-else>\n' \
                + nl + '\n</dtml-if>\n\n<dtml-var y>'
            yield rule, head + '<dtml-in s>\n<dtml-let a=b>\n' + nl + \
                '</dtml-let>\n\n</dtml-in>'


def check_error(case):
    """['error', rule, dtml source] -> the three spellings are rejected
    alike: same class, same message, same line."""
    from checks import c06
    res = {}
    for sx in SYNTAXES:
        s2 = c06.translate(case[2], sx)
        try:
            t = harness.make_template(s2, sx)
            t.cook()
            res[sx] = ('ok',)
        except Exception as e:
            msg = e.args[0] if e.args and isinstance(e.args[0], str) \
                else str(e)
            m = c06.MSG.match(msg)
            res[sx] = (type(e).__name__, m.group('mess') if m else msg[:200],
                       int(m.group('line')) if m else None)
    if res['dtml'] == ('ok',) and res['ssi'] == ('ok',) and \
            res['epfs'] == ('ok',):
        return 'skip'
    for other in ('ssi', 'epfs'):
        if res['dtml'] != res[other]:
            what = 'class' if res['dtml'][0] != res[other][0] else (
                'message' if res['dtml'][1] != res[other][1] else 'line')
            return ('compile-error:%s:dtml-vs-%s' % (what, other),
                    '%r: dtml %r, %s %r' % (case[2], res['dtml'], other,
                                            res[other]))
    return None


# ---------------------------------------- templates of a non-default encoding

def encoding_cases():
    def T(x):
        return dict(k='text', s=x)

    def name(n):
        return dict(r='name', n=n)
    ins = {
        'var': dict(k='var', ref=name('vby'), opts=[]),
        'var-hq': dict(k='var', ref=name('vby'), opts=[['html_quote', None]]),
        'ent': dict(k='ent', n='vby', mods=[]),
        'var-upper': dict(k='var', ref=name('vby'), opts=[['size', '99']]),
    }
    blocks = {
        'top': lambda b: b,
        'if': lambda b: [dict(k='if', conds=[name('ct')], bodies=[b],
                              **{'else': None})],
        'if-else': lambda b: [dict(k='if', conds=[name('cf')],
                                   bodies=[[T('n')]], **{'else': b})],
        'unless': lambda b: [dict(k='unless', ref=name('cf'), body=b)],
        'in': lambda b: [dict(k='in', ref=name('s2'), opts=[], body=b,
                              **{'else': None})],
        'in-batch': lambda b: [dict(k='in', ref=name('s2'),
                                    opts=[['size', '1']], body=b,
                                    **{'else': None})],
        'in-else': lambda b: [dict(k='in', ref=name('s0'), opts=[],
                                   body=[T('n')], **{'else': b})],
        'with': lambda b: [dict(k='with', ref=name('oa'), mapping=False,
                                only=False, body=b)],
        'let': lambda b: [dict(k='let', binds=[['la', name('va')]], body=b)],
        'try': lambda b: [dict(k='try', body=b, handlers=[dict(
            names=[], body=[T('handler')])],
            **{'else': None, 'finally': None})],
        'try-handler': lambda b: [dict(k='try', body=[dict(
            k='var', ref=name('fr'), opts=[])], handlers=[dict(
                names=[], body=b)], **{'else': None, 'finally': None})],
        'try-finally': lambda b: [dict(k='try', body=[T('t')], handlers=[],
                                       **{'else': None, 'finally': b})],
        'in-with': lambda b: [dict(k='in', ref=name('s2'), opts=[], body=[
            dict(k='with', ref=name('oa'), mapping=False, only=False,
                 body=b)], **{'else': None})],
    }
    for enc in ('latin-1', 'cp1252', 'utf-16', 'utf-8', 'cp500'):
        for bk in sorted(blocks):
            for ik in sorted(ins):
                for neigh in (0, 1):
                    yield ['encoded', enc, bk, ik, neigh]
    encoding_cases.parts = (ins, blocks)


def check_encoded(case):
    """A template created with an encoding, inserting a bytes value in
    that encoding inside a block: the three spellings render alike."""
    _, enc, bk, ik, neigh = case
    if not hasattr(encoding_cases, 'parts'):
        list(encoding_cases())
    ins, blocks = encoding_cases.parts
    body = [ins[ik]]
    if neigh:
        body = [dict(k='text', s='é<')] + body + [dict(k='text', s='>ß')]
    ast = [dict(k='text', s='[')] + blocks[bk](body) + [dict(k='text',
                                                              s=']')]
    value = 'café <é>'.encode(enc)
    ns_spec = dict(NSS[0], vby=dict(t='bytes', v=value.decode('latin-1')))
    outs = {}
    for sx in SYNTAXES:
        src, toks = dtml.print_ast(ast, sx, dtml.Style([0]))
        try:
            t = harness.make_template(src, sx, encoding=enc)
        except Exception as e:
            outs[sx] = ['compile', type(e).__name__]
            continue
        out, world, _ = harness.run_impl(src, sx, ns_spec, template=t)
        o = harness.norm_outcome(out)
        outs[sx] = (o[:2] if o[0] == 'raise' else o, src)
    for other in ('ssi', 'epfs'):
        if outs['dtml'][0] != outs[other][0]:
            return ('render:encoded:dtml-vs-%s' % other,
                    'encoding=%s: %r vs %r' % (enc, outs['dtml'],
                                               outs[other]))
    return None


def strategy():
    from hypothesis import strategies as st
    return st.fixed_dictionaries(dict(
        ast=st.one_of(gen.template(CFG), gen.template(CFG),
                      gen.template(CFG_LIT)),
        picks=st.lists(st.integers(0, 200), min_size=1, max_size=10),
        styles=st.tuples(gen.style(), gen.style(), gen.style())))


def plan(tier, seed):
    n = 300 if tier == "quick" else 4000
    shards = [dict(kind='random', seed=seed * 1000 + i, n=n)
              for i in range(15)]
    shards.append(dict(kind='entities'))
    shards.append(dict(kind='elseblocks'))
    shards.append(dict(kind='attrvalues'))
    shards.append(dict(kind='errors'))
    shards.append(dict(kind='encoded'))
    return shards


def run_shard(shard):
    acc = Acc(ID, sample_every=41)
    if shard['kind'] == 'entities':
        for r in range(0, 4):
            for mods in itertools.combinations(MODS, r):
                for name in ('va', 'sequence-item', 'x_1.y'):
                    if name == 'x_1.y' and r > 1:
                        continue
                    case = ['entity', list(mods), name]
                    acc.case(case, r > 0, klass='entity',
                             distinct_by_construction=True)
                    for b, msg in check_entity(list(mods), name):
                        acc.fail(b, case, msg)
        for name in ('va', 'sequence-item', 'x_1.y', 'a-b-c'):
            case = ['entity', [], name, 'dotted']
            acc.case(case, True, klass='entity-no-modifiers',
                     distinct_by_construction=True)
            for b, msg in check_entity([], name, dotted=True):
                acc.fail(b + ':no-modifiers', case, msg)
        return acc.result()
    if shard['kind'] == 'encoded':
        for case in encoding_cases():
            bad = check_encoded(case)
            acc.case(case, True, klass='encoded:' + case[2],
                     distinct_by_construction=True)
            if bad:
                acc.fail(bad[0], case, bad[1])
        return acc.result()
    if shard['kind'] == 'errors':
        for rule, src in error_sources():
            case = ['error', rule, src]
            bad = check_error(case)
            if bad == 'skip':
                continue
            acc.case(case, True, klass='compile-error:' + rule,
                     distinct_by_construction=True)
            if bad:
                acc.fail(bad[0], case, bad[1])
        return acc.result()
    if shard['kind'] in ('elseblocks', 'attrvalues'):
        for case in (elseblock_cases() if shard['kind'] == 'elseblocks'
                     else attrvalue_cases()):
            fails = check(case)
            acc.case(case, True, klass=shard['kind'],
                     distinct_by_construction=True)
            for b, msg in fails:
                acc.fail(b, case, msg)
        return acc.result()
    strat = strategy()

    def one(case):
        fails = check(case)
        ast = decorate(case['ast'], case['picks'])
        acc.case(case, has_continuation(ast) and needs_quoting(ast),
                 klass=['template', 'compile:' + str(LAST.get('compile')),
                        'render:' + str(LAST.get('render'))])
        for b, msg in fails:
            acc.fail(b, case, msg)
    hyp_run(strat, one, shard['n'], shard['seed'])

    def bucket_of(c):
        f = check(c)
        return f[0][0] if f else None
    shrink_failures(acc, strat, bucket_of, shard['seed'])
    return acc.result()


def replay(case):
    if isinstance(case, list) and case and case[0] == 'encoded':
        return check_encoded(case)
    if isinstance(case, list) and case and case[0] == 'error':
        f = check_error(case)
        return f if f and f != 'skip' else None
    if isinstance(case, list) and case and case[0] == 'entity':
        f = check_entity(case[1], case[2], dotted=len(case) > 3)
    else:
        f = check(case)
    return f[0] if f else None
