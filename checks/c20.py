"""C20 - tree state survives its cookie encoding and tracks expand/collapse
clicks.  Oracles: codec round trip; model = set of expanded paths."""
import hashlib
import itertools
import json
import re
import zlib

from vf.engine import Acc
from vf.engine import CpuTimeout, cpu_limit

ID = 'C20'
EXHAUSTIVE = ('quick', 'thorough')
RULE = ('(a) codec: states built so that the compressed length takes every '
        'value from 20 to 140 bytes (both sides of the 57-byte chunk and '
        '76-character thresholds), ids short / long / non-ASCII / integers, '
        'round trip through encode_seq/decode_seq and through the link '
        'encoding; (b) exhaustive: every ordered tree shape with <= 7 nodes '
        '(quick <= 6) and every click history of length <= 5 (quick <= 4) '
        'over the links the previous rendering produced plus expand_all / '
        'collapse_all, the harness playing the browser (parses tree-e / '
        'tree-c links, feeds the tree-s cookie back); (c) Hypothesis '
        'RuleBasedStateMachine: random trees up to 40 nodes with long, '
        'non-ASCII, integer and repeated ids, histories up to 40 clicks.  '
        'Non-trivial: the history collapses a node with an expanded '
        'descendant, or the encoded state exceeds 76 characters.  Histories '
        'are distinct by construction (enumerated without merging).')
RULE += (
         'Also: transient branch wrappers, shared subtree objects, ids '
         'with lone surrogates / controls; a rendering that raises, '
         'exceeds 30 CPU-seconds or memory is a violation. ')
RULE += (
         'Links followed without the cookie and first visits as '
         'machine rules. ')
RULE += ('Round 8: ids taken from a method / attribute named with id=. ')
RULE += ('Round 10: trees whose ids contain / or , next to the paths they could be confused with. ')
ASSUMPTIONS = [
    'sibling ids are unique (the state identifies nodes by id path)',
    'the model is the set of expanded id paths; rows are compared in '
    'depth-first order',
]


class Node:
    def __init__(self, nid, children=()):
        self.nid = nid
        self.children = list(children)

    def tpValues(self):
        return self.children

    def tpId(self):
        return self.nid

    def tpURL(self):
        return 'u'


class Response:
    def __init__(self):
        self.cookies = {}

    def setCookie(self, name, value, **kw):
        self.cookies[name] = value


class Leaf:
    """Content object: no branches method at all."""

    def __init__(self, nid):
        self.nid = nid

    def tpId(self):
        return self.nid

    def tpURL(self):
        return 'u'


class Transient:
    """A node whose branches are wrapper objects made for every call
    (like acquisition wrappers): nobody keeps them alive."""

    def __init__(self, node):
        self._node = node
        self.nid = node.nid

    def tpValues(self):
        return [Transient(c) if isinstance(c, Node) else c
                for c in self._node.children]

    def tpId(self):
        return self.nid

    def tpURL(self):
        return 'u'


class CINode:
    """A node of an application that names its ids itself (the tag is told
    with id=myid); what its tpId says is something else."""

    def __init__(self, nid, children=()):
        self.nid = nid
        self.children = list(children)

    def tpValues(self):
        return self.children

    def myid(self):
        return self.nid

    def tpId(self):
        return 'other'

    def tpURL(self):
        return 'u'


class CINodePlain(CINode):
    """... or that has no tpId at all and keeps the id in an attribute."""
    tpId = property()

    def __init__(self, nid, children=()):
        CINode.__init__(self, nid, children)
        self.myid = nid


def build(spec, opts=False, memo=None):
    """spec = [id, [child specs]].  Harness options (not tag options):
    'leaf-objects': childless nodes are objects without a tpValues method;
    'shared-objects': equal subtrees are one object listed under several
    parents; 'transient-nodes': branches are wrappers made for each call."""
    if opts is True:
        opts = 'leaf-objects'
    opts = opts or ''
    if 'transient-nodes' in opts:
        return Transient(build(spec, opts.replace('transient-nodes', '')))
    if 'shared-objects' in opts:
        memo = {} if memo is None else memo
        key = json.dumps(spec)
        if key in memo:
            return memo[key]
    if 'leaf-objects' in opts and not spec[1]:
        n = Leaf(spec[0])
    elif 'custom-id-attr' in opts:
        n = CINodePlain(spec[0], [build(c, opts, memo) for c in spec[1]])
    elif 'custom-id' in opts:
        n = CINode(spec[0], [build(c, opts, memo) for c in spec[1]])
    else:
        n = Node(spec[0], [build(c, opts, memo) for c in spec[1]])
    if memo is not None:
        memo[key] = n
    return n


HARNESS_OPTS = ('leaf-objects', 'shared-objects', 'transient-nodes',
                'custom-id-attr', 'custom-id')


_T = {}


# 'leaf-objects' is not a tag option: it makes the childless nodes objects
# without a branches method (folders and documents mixed)
OPTIONS = ['', 'assume_children', 'reverse', 'sort=nid', 'nowrap',
           'assume_children reverse', 'sort=nid reverse', 'leaf-objects',
           'leaf-objects reverse', 'transient-nodes', 'shared-objects',
           'transient-nodes sort=nid reverse',
           # the application names its ids itself: id=myid
           'custom-id', 'custom-id-attr', 'custom-id reverse']


def template(opts=''):
    from DocumentTemplate import HTML
    if opts not in _T:
        tag_opts = opts
        for h in HARNESS_OPTS:
            tag_opts = tag_opts.replace(h, '')
        idname = 'tpId'
        if 'custom-id' in opts:
            idname = 'myid'
            tag_opts += ' id=myid'
        _T[opts] = HTML('<dtml-tree root %s>⟦<dtml-var %s>⟧</dtml-tree>'
                        % (tag_opts.strip(), idname))
    return _T[opts]


def ordered(children, opts):
    """Sibling order under the tag's sort / reverse options."""
    c = list(children)
    if 'sort=' in opts:
        c.sort(key=lambda n: n[0])
    if 'reverse' in opts:
        c.reverse()
    return c


LINK = re.compile(r'<a name="([^"]*)" href="([^"?]*)\?tree-([ec])=([^#"]*)#')
CELL = re.compile(r'⟦(.*?)⟧', re.S)


class Stuck(Exception):
    """A rendering used more than 30 CPU-seconds, ran out of memory or
    raised: the inputs are a valid tree, the tag's own cookie and a link of
    its own page, so the tag has to render."""
    kind = 'no-termination'


def render(root, cookie=None, click=None, flag=None, opts=''):
    """-> (rows, cookie_out) ; rows = [(id_text, link or None)],
    link = (kind, encoded)."""
    try:
        with cpu_limit(30.0):
            return render_(root, cookie, click, flag, opts)
    except (CpuTimeout, MemoryError) as e:
        raise Stuck('rendering with cookie=%r click=%r flag=%r %s: %s' % (
            cookie and cookie[:80], click and (click[0], click[1][:80]),
            flag, opts, type(e).__name__))
    except Exception as e:
        x = Stuck('rendering with cookie=%r click=%r flag=%r %s raised %s: '
                  '%s' % (cookie and cookie[:80],
                          click and (click[0], click[1][:80]), flag, opts,
                          type(e).__name__, str(e)[:200]))
        x.kind = 'render-exception:' + type(e).__name__
        raise x


def render_(root, cookie=None, click=None, flag=None, opts=''):
    resp = Response()
    ns = dict(root=root, URL='http://host/base/page', RESPONSE=resp)
    if cookie is not None:
        ns['tree-s'] = cookie
    if click is not None:
        ns['tree-' + click[0]] = click[1]
    if flag:
        ns[flag] = 1
    out = template(opts)(**ns)
    rows = []
    for chunk in out.split('<tr>')[1:]:
        m = CELL.search(chunk)
        if not m:
            continue
        link = LINK.search(chunk[:m.start()])
        rows.append((m.group(1), (link.group(3), link.group(4))
                     if link else None))
    return rows, resp.cookies.get('tree-s'), out


def model_rows(spec, expanded, opts=''):
    """DFS rows [(path, has_children, is_expanded)]."""
    rows = []

    def walk(children, prefix):
        for c in ordered(children, opts):
            p = prefix + (c[0],)
            kids = bool(c[1])
            ex = kids and p in expanded
            rows.append((p, kids, ex))
            if ex:
                walk(c[1], p)
    walk(spec[1], ())
    return rows


def all_expandable(spec):
    out = set()

    def walk(children, prefix):
        for c in children:
            p = prefix + (c[0],)
            if c[1]:
                out.add(p)
                walk(c[1], p)
    walk(spec[1], ())
    return out


def cookie_paths(cookie, root_id):
    from TreeDisplay.TreeTag import decode_seq
    state = decode_seq(cookie)
    paths = set()
    if not state or state[0][0] != root_id:
        return None

    def walk(subs, prefix):
        for s in subs:
            p = prefix + (s[0],)
            paths.add(p)
            if len(s) > 1:
                walk(s[1], p)
    if len(state[0]) > 1:
        walk(state[0][1], ())
    return paths


def compare(spec, expanded, rows, cookie, opts='', leaves=frozenset()):
    """-> None or (bucket, msg).  leaves: childless nodes whose (assumed)
    expand link was clicked."""
    from TreeDisplay.TreeTag import decode_seq
    assume = 'assume_children' in opts
    exp = model_rows(spec, expanded, opts)
    got_ids = [r[0] for r in rows]
    exp_ids = [str(p[-1]) for p, _, _ in exp]
    if got_ids != exp_ids:
        return 'rows', 'rows shown %r, expected %r (expanded %r)' % (
            got_ids, exp_ids, sorted(expanded, key=repr))
    for (idt, link), (p, kids, ex) in zip(rows, exp):
        if not kids:
            if link is not None and not assume:
                return 'link-on-leaf', 'leaf %r carries a link' % (p,)
            if assume and p not in leaves:
                # assumed to have children until shown otherwise
                if link is None or link[0] != 'e':
                    return ('assumed-link', 'childless node %r (children '
                            'assumed) carries %r' % (p, link))
                try:
                    target = decode_seq(link[1])
                except Exception as e:
                    return ('link-undecodable', 'link of node %r: %r (%d '
                            'chars)' % (p, e, len(link[1])))
                if list(target) != [spec[0]] + list(p):
                    return ('link-target', 'link of node %r decodes to %r'
                            % (p, target))
            continue
        if link is None:
            return 'link-missing', 'node %r with children has no link' % (p,)
        kind, enc = link
        if (kind == 'c') != ex:
            return ('link-kind', 'node %r expanded=%r but link is tree-%s'
                    % (p, ex, kind))
        try:
            target = decode_seq(enc)
        except Exception as e:
            return ('link-undecodable', 'link of node %r: %r (%d chars)' % (
                p, e, len(enc)))
        if list(target) != [spec[0]] + list(p):
            return ('link-target', 'link of node %r decodes to %r' % (
                p, target))
    if cookie is None:
        return 'cookie-missing', 'no tree-s cookie was written'
    try:
        cp = cookie_paths(cookie, spec[0])
    except Exception as e:
        return 'cookie-undecodable', '%r: %r' % (cookie, e)
    if cp is not None and assume:
        # clicked childless nodes may be remembered as expanded
        real = all_expandable(spec)
        extra = {q for q in cp if q not in real}
        if not extra <= set(leaves):
            return 'cookie-state', 'cookie lists %r as expanded; clicked ' \
                'childless nodes are %r' % (sorted(extra, key=repr),
                                            sorted(leaves, key=repr))
        cp = cp - extra
    if cp is None or cp != set(expanded):
        return 'cookie-state', 'cookie describes %r, model %r' % (
            sorted(cp, key=repr) if cp is not None else None,
            sorted(expanded, key=repr))
    return None


def apply_action(spec, expanded, action, rows_model, leaves=None):
    """Model transition; action = ('click', row index) | ('flag', name).
    leaves (a set, updated in place): clicked childless nodes."""
    expanded = set(expanded)
    if leaves is None:
        leaves = set()
    if action[0] == 'flag':
        leaves.clear()
        if action[1] == 'expand_all':
            return all_expandable(spec)
        return set()
    p, kids, ex = rows_model[action[1]]
    if not kids:
        leaves.add(p)            # only with assume_children
        return expanded
    if ex:
        for q in [q for q in leaves if q[:len(p)] == p]:
            leaves.discard(q)
        return {q for q in expanded if q[:len(p)] != p}
    expanded.add(p)
    return expanded


def play(spec, history, opts=''):
    """Replay a history from scratch -> None or (bucket, msg)."""
    try:
        return play_(spec, history, opts)
    except Stuck as e:
        return e.kind, 'tree %r history %r: %s' % (spec, history, e)


def mailed_state(path, link):
    """A link of the page followed without the state cookie (mailed,
    cookies off): it is applied to the initial state.  Expanding the node at
    `path` expands the nodes on the way to it; collapsing it opens the way
    to it as well and leaves the node itself closed."""
    last = len(path) + 1 if link[0] == 'e' else len(path)
    return {path[:j] for j in range(1, last)}


def play_(spec, history, opts=''):
    root = build(spec, opts)
    expanded = set()
    leaves = set()
    rows, cookie, _ = render(root, opts=opts)
    bad = compare(spec, expanded, rows, cookie, opts, leaves)
    if bad:
        return bad[0], 'initial rendering: ' + bad[1]
    for step, action in enumerate(history):
        mrows = model_rows(spec, expanded, opts)
        if action[0] == 'click':
            if action[1] >= len(rows) or rows[action[1]][1] is None:
                return None          # not a link any more (shrunk history)
            link = rows[action[1]][1]
            new_expanded = apply_action(spec, expanded, action, mrows,
                                        leaves)
            rows, cookie, _ = render(root, cookie, click=link, opts=opts)
        elif action[0] == 'mailed':
            if action[1] >= len(rows) or rows[action[1]][1] is None:
                return None
            link = rows[action[1]][1]
            new_expanded = mailed_state(mrows[action[1]][0], link)
            leaves.clear()
            rows, cookie, _ = render(root, None, click=link, opts=opts)
        elif action[0] == 'fresh':
            new_expanded = set()
            leaves.clear()
            rows, cookie, _ = render(root, None, opts=opts)
        else:
            new_expanded = apply_action(spec, expanded, action, mrows,
                                        leaves)
            rows, cookie, _ = render(root, cookie, flag=action[1], opts=opts)
        expanded = new_expanded
        bad = compare(spec, expanded, rows, cookie, opts, leaves)
        if bad:
            return bad[0], 'tree %r after history %r: %s' % (
                spec, history[:step + 1], bad[1])
    return None


# ------------------------------------------------------ exhaustive histories

def shapes(n):
    """All ordered rooted trees with n nodes as nested child lists."""
    if n == 1:
        return [[]]
    out = []
    # a forest of n-1 nodes: first tree has k nodes, the rest n-1-k
    for forest in forests(n - 1):
        out.append(forest)
    return out


def forests(m):
    if m == 0:
        return [[]]
    out = []
    for k in range(1, m + 1):
        for first in shapes(k):
            for rest in forests(m - k):
                out.append([first] + rest)
    return out


def depth(shape):
    return 1 + max([depth(c) for c in shape], default=0)


def label(shape, scramble=False):
    counter = itertools.count()

    def name():
        k = next(counter)
        return 'n%d' % ((k * 5 + 3) % 7 if scramble else k)

    def walk(children):
        return [[name(), walk(c)] for c in children]
    return ['root', walk(shape)]


def explore(spec, max_len, acc, budget, opts=''):
    """Depth-first enumeration of every click history up to max_len."""
    root = build(spec, opts)
    count = [0]
    current = [[]]

    def rec(expanded, rows, cookie, history, nt, leaves=frozenset()):
        if len(history) >= max_len or count[0] >= budget:
            return
        mrows = model_rows(spec, expanded, opts)
        actions = [('click', i) for i, r in enumerate(rows)
                   if r[1] is not None]
        actions += [('flag', 'expand_all'), ('flag', 'collapse_all')]
        for a in actions:
            count[0] += 1
            current[0] = history + [list(a)]
            nleaves = set(leaves)
            new_exp = apply_action(spec, expanded, a, mrows, nleaves)
            if a[0] == 'click':
                nrows, ncookie, _ = render(root, cookie, click=rows[a[1]][1],
                                           opts=opts)
                p, kids, ex = mrows[a[1]]
                nt2 = nt or (ex and any(q != p and q[:len(p)] == p
                                        for q in expanded))
            else:
                nrows, ncookie, _ = render(root, cookie, flag=a[1], opts=opts)
                nt2 = nt
            h = history + [list(a)]
            nt2 = nt2 or (ncookie is not None and len(ncookie) > 76)
            acc.case([spec, h, opts], nt2, klass=[
                'history-len-%d' % len(h), 'options:' + (opts or 'none')],
                distinct_by_construction=True)
            bad = compare(spec, new_exp, nrows, ncookie, opts, nleaves)
            if bad:
                acc.fail('history:' + bad[0], dict(tree=spec, history=h,
                                                   opts=opts),
                         'tree %r (%s) after history %r: %s' % (
                             spec, opts, h, bad[1]))
                continue
            rec(new_exp, nrows, ncookie, h, nt2, frozenset(nleaves))

    try:
        rows, cookie, _ = render(root, opts=opts)
        bad = compare(spec, set(), rows, cookie, opts)
        acc.case([spec, [], opts], False, klass='history-len-0',
                 distinct_by_construction=True)
        if bad:
            acc.fail('history:' + bad[0], dict(tree=spec, history=[],
                                               opts=opts), bad[1])
            return
        rec(set(), rows, cookie, [], False)
    except Stuck as e:
        acc.fail('history:' + e.kind, dict(tree=spec,
                                                history=current[0],
                                                opts=opts),
                 'tree %r (%s) history %r: %s' % (spec, opts, current[0], e))


# -------------------------------------------------------------------- codec

def h(i, k):
    return hashlib.sha1(str(i).encode()).hexdigest()[:k]


def codec_states():
    """States whose compressed JSON length covers 20..140 bytes."""
    seen = {}
    for n in range(1, 60):
        for k in (1, 2, 3, 5, 8, 13, 20):
            ids = [h(i, k) for i in range(n)]
            for shape in ('flat', 'chain'):
                if shape == 'flat':
                    st = [['root', [[i] for i in ids]]]
                else:
                    st = []
                    for i in reversed(ids):
                        st = [[i, st]] if st else [[i]]
                    st = [['root', st]]
                ln = len(zlib.compress(json.dumps(st).encode()))
                if 20 <= ln <= 140 and (ln, shape) not in seen:
                    seen[(ln, shape)] = st
    extra = [
        [['root', [['é'], ['中文', [['\U0001F600']]], [5], [17, [[3]]]]]],
        [[0, []]], [['root']], [['r', [['a' * 200]]]],
        [['root', [['x' * 57]]]], [['root', [['y' * 58], ['z' * 76]]]],
        [['root', [[i] for i in range(60)]]],
        # ids as os.fsdecode gives them for file names that are not valid
        # UTF-8 (lone surrogates), controls, quotes and backslashes
        [['root', [['caf\udce9']]]], [['caf\udce9', [['\udcff\udcfe-old']]]],
        [['root', [['\udcff\udcfe-old-backup' * 20]]]],
        [['root', [['a\x00b'], ['q"uo\\te'], ['\x7f\x1f'], ['\ud800']]]],
    ]
    # large states ("any state size"): JSON text from 1 KB to 300 KB, on both
    # sides of every power of two, with incompressible and repetitive ids
    big = []
    for target in (1000, 2040, 2050, 4000, 4090, 4097, 4200, 6000, 8190,
                   8200, 16380, 16390, 32760, 32780, 65530, 65540, 131080,
                   300000):
        for k, mk in ((12, lambda i: h(i, 12)), (40, lambda i: 'folder-%035d'
                                                  % i),
                      (6, lambda i: 'é%05d' % i)):
            n = max(1, target // (k + 6))
            big.append([['root', [[mk(i)] for i in range(n)]]])
        n = max(1, target // 24)
        chain = []
        for i in range(min(n, 300)):
            chain = [[h(i, 12), chain]] if chain else [[h(i, 12)]]
        big.append([['root', chain]])
    return list(seen.values()) + extra + big


def check_codec(st):
    from TreeDisplay.TreeTag import (compress, decode_seq, encode_seq,
                                     encode_str)
    try:
        enc = encode_seq(st)
        back = decode_seq(enc)
    except Exception as e:
        return 'codec-exception:%s' % type(e).__name__, '%r: %r' % (st, e)
    if back != st:
        return ('codec-roundtrip', 'state %s (%d bytes of JSON) -> %d chars '
                '-> %s' % (repr(st)[:300], len(json.dumps(st)), len(enc),
                           repr(back)[:300]))
    if not re.fullmatch(r'[A-Za-z0-9/_-]*', enc):
        return 'codec-alphabet', 'encoded state %r is not cookie/URL safe' \
            % enc
    # the link encoding of a path (the flat id list of the state)
    path = []

    def flat(s):
        for e in s:
            path.append(e[0])
            if len(e) > 1:
                flat(e[1])
    flat(st)
    try:
        link = encode_str(compress(json.dumps(path))).decode('ascii')
        back = decode_seq(link)
    except Exception as e:
        return 'link-codec-exception:%s' % type(e).__name__, repr(e)
    if back != path:
        return 'link-codec-roundtrip', 'path %s -> %d chars -> %s' % (
            repr(path)[:300], len(link), repr(back)[:300])
    return None


# ------------------------------------------------------------ state machine

class Violation(AssertionError):
    def __init__(self, bucket, case, msg):
        AssertionError.__init__(self, msg)
        self.bucket, self.case, self.msg = bucket, case, msg


def machine_class():
    from hypothesis import strategies as st
    from hypothesis.stateful import (RuleBasedStateMachine, initialize,
                                     precondition, rule)
    ids = st.one_of(
        st.sampled_from(['a', 'b', 'c', 'd', 'é', '中文', 'x y', 'q.r',
                         'id-with-dash', 'A' * 40, 'z' * 90,
                         '\U0001F600', 'n&m']),
        st.integers(0, 50), st.text('abcdefgh', min_size=1, max_size=12))

    def uniq(children):
        seen, out = set(), []
        for c in children:
            if repr(c[0]) not in seen:
                seen.add(repr(c[0]))
                out.append(c)
        return out
    tree = st.recursive(
        ids.map(lambda i: [i, []]),
        lambda sub: st.tuples(ids, st.lists(sub, max_size=4)).map(
            lambda t: [t[0], uniq(t[1])]), max_leaves=25)

    def render(root, *a, **kw):
        try:
            return globals()['render'](root, *a, **kw)
        except Stuck as e:
            m = current_machine[0]
            raise Violation('machine:' + e.kind,
                            dict(tree=m.spec, history=m.history,
                                 opts=m.opts),
                            'tree %r (%s) history %r: %s' % (
                                m.spec, m.opts, m.history, e))
    current_machine = [None]

    class TreeMachine(RuleBasedStateMachine):
        def __init__(self):
            super().__init__()
            self.spec = None
            current_machine[0] = self

        @initialize(t=st.lists(tree, min_size=1, max_size=5),
                    opts=st.sampled_from(['', '', 'assume_children',
                                          'reverse', 'nowrap',
                                          'assume_children reverse',
                                          'leaf-objects',
                                          'leaf-objects reverse',
                                          'transient-nodes',
                                          'shared-objects',
                                          'shared-objects reverse']))
        def start(self, t, opts):
            self.spec = ['root', uniq(t)]
            self.opts = opts
            self.root = build(self.spec, opts)
            self.expanded = set()
            self.leaves = set()
            self.history = []
            self.rows, self.cookie, _ = render(self.root, opts=opts)
            self.check()

        def check(self):
            bad = compare(self.spec, self.expanded, self.rows, self.cookie,
                          self.opts, self.leaves)
            if bad:
                raise Violation('machine:' + bad[0],
                                dict(tree=self.spec, history=self.history,
                                     opts=self.opts),
                                'tree %r (%s) after history %r: %s' % (
                                    self.spec, self.opts, self.history,
                                    bad[1]))

        @precondition(lambda self: self.spec is not None)
        @rule(i=st.integers(0, 200))
        def click(self, i):
            links = [k for k, r in enumerate(self.rows) if r[1] is not None]
            if not links:
                return
            k = links[i % len(links)]
            mrows = model_rows(self.spec, self.expanded, self.opts)
            self.expanded = apply_action(self.spec, self.expanded,
                                         ('click', k), mrows, self.leaves)
            self.history.append(['click', k])
            self.rows, self.cookie, _ = render(self.root, self.cookie,
                                               click=self.rows[k][1],
                                               opts=self.opts)
            self.check()

        @precondition(lambda self: self.spec is not None)
        @rule(flag=st.sampled_from(['expand_all', 'collapse_all']))
        def all_(self, flag):
            mrows = model_rows(self.spec, self.expanded, self.opts)
            self.expanded = apply_action(self.spec, self.expanded,
                                         ('flag', flag), mrows, self.leaves)
            self.history.append(['flag', flag])
            self.rows, self.cookie, _ = render(self.root, self.cookie,
                                               flag=flag, opts=self.opts)
            self.check()

        @precondition(lambda self: self.spec is not None and
                      'assume_children' not in self.opts)
        @rule(i=st.integers(0, 200))
        def mailed_link(self, i):
            # a link of the current page followed without the cookie
            links = [k for k, r in enumerate(self.rows) if r[1] is not None]
            if not links:
                return
            k = links[i % len(links)]
            mrows = model_rows(self.spec, self.expanded, self.opts)
            link = self.rows[k][1]
            self.expanded = mailed_state(mrows[k][0], link)
            self.leaves = set()
            self.history.append(['mailed', k])
            self.rows, self.cookie, _ = render(self.root, None, click=link,
                                               opts=self.opts)
            self.check()

        @precondition(lambda self: self.spec is not None)
        @rule()
        def fresh_visit(self):
            # a first visit: no cookie, no click
            self.expanded = set()
            self.leaves = set()
            self.history.append(['fresh'])
            self.rows, self.cookie, _ = render(self.root, None,
                                               opts=self.opts)
            self.check()

        @precondition(lambda self: self.spec is not None)
        @rule()
        def reload(self):
            self.history.append(['reload'])
            self.rows, self.cookie, _ = render(self.root, self.cookie,
                                               opts=self.opts)
            self.check()

    return TreeMachine


def run_machine(acc, n, seed, steps):
    from hypothesis import HealthCheck, Phase, seed as hseed, settings
    from hypothesis.stateful import run_state_machine_as_test
    M = machine_class()
    counter = {'n': 0}
    orig_check = M.check

    def counting_check(self):
        counter['n'] += 1
        nt = self.cookie is not None and len(self.cookie) > 76
        acc.case([repr(self.spec)[:200], self.history[-6:]], nt,
                 klass='machine-step')
        try:
            return orig_check(self)
        except Violation as v:
            seen.append(v)
            raise
    seen = []
    M.check = counting_check
    try:
        run_state_machine_as_test(
            hseed(seed)(M),
            settings=settings(max_examples=n, stateful_step_count=steps,
                              deadline=None, database=None,
                              phases=[Phase.generate, Phase.shrink],
                              report_multiple_bugs=False,
                              suppress_health_check=list(HealthCheck)))
    except Violation as v:
        acc.fail(v.bucket, v.case, v.msg)
    except Exception:
        # Hypothesis reports "flaky" when the code under test carries state
        # from one history into the next; the violation it saw is real
        if not seen:
            raise
        v = min(seen, key=lambda v: len(v.case['history']))
        acc.fail(v.bucket + ':state-leaks-between-histories', v.case, v.msg)


def plan(tier, seed):
    maxn = 7
    maxlen = 4 if tier == 'quick' else 5
    specs = []
    for n in range(1, maxn + 1):
        for sh in shapes(n):
            if depth(sh) <= 5:           # root + depth 4
                specs.append(label(sh))
    shards = [dict(kind='histories', specs=specs[i::14], maxlen=maxlen)
              for i in range(14)]
    # option shards: trees with <= 5 nodes whose sibling ids are not in
    # sorted order (so that sort= / reverse are visible)
    small = []
    for n in range(1, 7):
        for sh in shapes(n):
            if depth(sh) <= 5:
                small.append(label(sh, scramble=True))
    def dup_leaves(spec):
        # childless nodes are called by their position among their siblings:
        # equal subtrees occur under several parents
        return [spec[0], [[('l%d' % k) if not c[1] else c[0],
                           dup_leaves(c)[1]]
                          for k, c in enumerate(spec[1])]]
    for o in OPTIONS[1:]:
        for half in (0, 1):
            sp = small[half::2]
            if 'shared-objects' in o:
                sp = [dup_leaves(x) for x in sp]
            shards.append(dict(kind='histories', specs=sp,
                               opts=o, maxlen=maxlen))
    # ids that contain the character paths are often joined with
    shards.append(dict(kind='histories', maxlen=5, specs=[
        ['root', [['a', [['b', [['x', []]]]]], ['a/b', [['y', []]]]]],
        ['r', [['a', [['b', []], ['b/c', [['z', []]]]]],
               ['a/b', [['c', [['w', []]]]]]]],
        ['r', [['a,b', [['c', []]]], ['a', [['b,c', [['d', []]]]]]]],
    ]))
    shards.append(dict(kind='codec'))
    for i in range(8 if tier == 'quick' else 16):
        shards.append(dict(kind='machine', seed=seed * 1000 + i,
                           n=120 if tier == 'quick' else 600,
                           steps=20 if tier == 'quick' else 40))
    return shards


def run_shard(shard):
    acc = Acc(ID, sample_every=4999)
    if shard['kind'] == 'histories':
        for spec in shard['specs']:
            explore(spec, shard['maxlen'], acc, budget=400000,
                    opts=shard.get('opts', ''))
    elif shard['kind'] == 'codec':
        for st in codec_states():
            bad = check_codec(st)
            ln = len(zlib.compress(json.dumps(st).encode()))
            acc.case(['codec', ln], ln > 57, klass='codec',
                     distinct_by_construction=True, sample=dict(
                         compressed_len=ln, state=repr(st)[:120]))
            if bad:
                acc.fail(bad[0], dict(codec=st), bad[1])
    else:
        run_machine(acc, shard['n'], shard['seed'], shard['steps'])
    return acc.result()


def replay(case):
    if 'codec' in case:
        return check_codec(case['codec'])
    hist = [tuple(a) for a in case['history'] if a[0] != 'reload']
    bad = play(case['tree'], hist, case.get('opts', ''))
    return bad
