"""C19 - bytes in mixed output decode with the template encoding; str() is
safe.  Oracles: metamorphic (inserting s.encode(enc) == inserting s for a
template created with encoding=enc) and a str()/message table for ustr."""
from vf.engine import Acc, hyp_run, shrink_failures

ID = 'C19'
RULE = ('Hypothesis: texts over Latin-1, BMP and astral characters x '
        'encodings UTF-8 / Latin-1 / CP1252 / UTF-16 (encodable texts only) '
        'x insertion forms (plain var, entity, html_quote, fmt=html-quote, '
        'html_quote with other options, inside in / if / with / let bodies, '
        'sequence items, try body with else / finally, raise message body) x '
        'neighbouring literal text (ASCII, non-ASCII, none); plus the ustr '
        'table: values of every built-in type, classes (plain, with '
        '__str__, with a metaclass __str__), functions, exceptions with '
        '0 / 1 / 2 arguments (nested, bytes argument) and objects with '
        'custom / misbehaving __str__, both through ustr() and through '
        '<dtml-var v>.  Non-trivial: the text has a non-ASCII character '
        'whose encoding differs between enc and Latin-1 and the rendering '
        'has >= 2 pieces.  Distinct = case hash.')
RULE += (
         'Also: page names alike str / bytes methods read in loops '
         'over text / bytes elements. ')
RULE += (
         'Texts starting / ending with U+FEFF, U+FFFE, NUL, U+2028 '
         'under every form x encoding; quoting forms of the str() '
         'table. ')
ASSUMPTIONS = [
    'only the insertion forms the statement names are asserted; other '
    'modifiers applied to bytes (upper, size, newline_to_br, %-formats) are '
    'outside the statement',
    'a rendering that consists of a single bytes piece may stay bytes; it '
    'is decoded with the template encoding before comparison',
]

ENCODINGS = ['utf-8', 'latin-1', 'cp1252', 'utf-16', 'cp500', 'utf-7',
             'utf-16-le', 'utf-32', 'shift_jis', 'cp037']

# name -> (source with {L} {R} neighbours, number of pieces >= 2 ?)
FORMS = {
    'plain': '{L}<dtml-var x>{R}',
    'plain-ssi': '{L}<!--#var x-->{R}',
    'entity': '{L}&dtml-x;{R}',
    'hq': '{L}<dtml-var x html_quote>{R}',
    'fmt-hq': '{L}<dtml-var x fmt=html-quote>{R}',
    'hq-opts': '{L}<dtml-var x html_quote missing="m">{R}',
    'expr': '{L}<dtml-var "x">{R}',
    'two': '<dtml-var x>{L}<dtml-var x>{R}&dtml-x;',
    'in-body': '{L}<dtml-in seq><dtml-var x>{R}</dtml-in>',
    'in-body-single': '<dtml-in seq><dtml-var x></dtml-in>{R}',
    'in-items': '{L}<dtml-in xs><dtml-var sequence-item></dtml-in>{R}',
    'in-items-ent': '<dtml-in xs>&dtml-sequence-item;{R}</dtml-in>',
    'in-batch': '<dtml-in xs size=2 orphan=0><dtml-var sequence-item>'
                '</dtml-in>{R}',
    'in-else': '<dtml-in empty>n<dtml-else><dtml-var x></dtml-in>{R}',
    # text / bytes elements are not namespaces: names of the page that are
    # also names of str / bytes methods keep their meaning in the body
    'in-items-outer-names': '<dtml-in xs>{L}<dtml-var title>:<dtml-var upper>'
                            ':<dtml-var count>:<dtml-var hex>:<dtml-var '
                            'decode>:<dtml-var sequence-item>{R}</dtml-in>',
    'in-items-outer-names-batch': '<dtml-in xs size=2 orphan=0><dtml-var '
                                  'lower>:<dtml-var strip>:<dtml-var '
                                  'sequence-item>|</dtml-in>',
    'if-body': '{L}<dtml-if t><dtml-var x></dtml-if>{R}',
    'if-else': '<dtml-if f>n<dtml-else>&dtml-x;</dtml-if>{R}',
    'unless': '{L}<dtml-unless f><dtml-var x></dtml-unless>{R}',
    'with': '{L}<dtml-with o><dtml-var x></dtml-with>{R}',
    'with-attr': '{L}<dtml-with ox><dtml-var bx></dtml-with>{R}',
    'let': '{L}<dtml-let y=x><dtml-var y></dtml-let>{R}',
    'try-else': '{L}<dtml-try><dtml-var x><dtml-except>E<dtml-else>{R}'
                '</dtml-try>',
    'try-else-single': '<dtml-try><dtml-var x><dtml-except>E<dtml-else>'
                       '</dtml-try>',
    'try-finally': '{L}<dtml-try><dtml-var x><dtml-finally>{R}</dtml-try>',
    # both parts of the try are a single bytes value each
    'try-else-both': '<dtml-try><dtml-var x><dtml-except>E<dtml-else>'
                     '<dtml-var x></dtml-try>',
    'try-finally-both': '<dtml-try><dtml-var x><dtml-finally><dtml-var x>'
                        '</dtml-try>',
    'try-else-both-hq': '{L}<dtml-try>&dtml-x;<dtml-except>E<dtml-else>'
                        '<dtml-var x></dtml-try>',
    'if-then-if': '<dtml-if t><dtml-var x></dtml-if><dtml-if t>'
                  '<dtml-var x></dtml-if>',
    'in-in': '<dtml-in seq><dtml-in seq><dtml-var x></dtml-in></dtml-in>',
    'try-except': '<dtml-try><dtml-var nope><dtml-except><dtml-var x>'
                  '</dtml-try>{R}',
    'raise-body': '<dtml-try><dtml-raise KeyError><dtml-var x></dtml-raise>'
                  '<dtml-except><dtml-var error_value></dtml-try>{R}',
    'sub': '{L}<dtml-var sub>{R}',
    # neighbours inside the block body: the block's own joining step must
    # use the template's encoding
    'in-else-inner': '<dtml-in empty>n<dtml-else>{L}<dtml-var x>{R}'
                     '</dtml-in>',
    'in-else-inner-hq': 'a<dtml-in empty>n<dtml-else>&dtml-x;{R}</dtml-in>',
    'in-prev-else': '<dtml-in xs previous size=2 start=1>p<dtml-else>{L}'
                    '<dtml-var x>{R}</dtml-in>',
    'in-next-else': '<dtml-in xs next size=2 start=2 orphan=0>p<dtml-else>'
                    '{L}<dtml-var x>{R}</dtml-in>',
    'in-batch-inner': '<dtml-in xs size=2 start=2 orphan=0>{L}<dtml-var '
                      'sequence-item>{R}</dtml-in>',
    'in-mapping-inner': '<dtml-in ms mapping>{L}<dtml-var mx>{R}</dtml-in>',
    'in-sort-inner': '<dtml-in seq sort reverse>{L}<dtml-var x>{R}'
                     '</dtml-in>',
    'if-else-inner': '<dtml-if f>n<dtml-else>{L}<dtml-var x>{R}</dtml-if>',
    'if-elif-inner': '<dtml-if f>n<dtml-elif t>{L}<dtml-var x>{R}'
                     '<dtml-else>e</dtml-if>',
    'unless-inner': '<dtml-unless f>{L}<dtml-var x>{R}</dtml-unless>',
    'with-inner': '<dtml-with ox>{L}<dtml-var bx>{R}</dtml-with>',
    'with-only-inner': '<dtml-with ox only>{L}<dtml-var bx>{R}</dtml-with>',
    'let-inner': '<dtml-let y=x>{L}<dtml-var y>{R}</dtml-let>',
    'try-body-inner': '<dtml-try>{L}<dtml-var x>{R}<dtml-except>E'
                      '</dtml-try>',
    'try-except-inner': '<dtml-try><dtml-var nope><dtml-except>{L}'
                        '<dtml-var x>{R}</dtml-try>',
    'try-else-inner': '<dtml-try>b<dtml-except>E<dtml-else>{L}<dtml-var x>'
                      '{R}</dtml-try>',
    'try-finally-inner': '<dtml-try>b<dtml-finally>{L}<dtml-var x>{R}'
                         '</dtml-try>',
    'try-finally-body-inner': '<dtml-try>{L}<dtml-var x>{R}<dtml-finally>f'
                              '</dtml-try>',
    'raise-body-inner': '<dtml-try><dtml-raise KeyError>{L}<dtml-var x>{R}'
                        '</dtml-raise><dtml-except><dtml-var error_value>'
                        '</dtml-try>',
    'sub-inner': '<dtml-var sub2>',
    'nested-inner': '<dtml-if t><dtml-in seq><dtml-with o>{L}<dtml-var x>'
                    '{R}</dtml-with></dtml-in></dtml-if>',
    'comment-neighbour': '<dtml-comment>c</dtml-comment>{L}<dtml-var x>{R}',
    # a sub-template created with another encoding is rendered first (it
    # decodes its own bytes with its own encoding); afterwards the outer
    # template still uses its own
    'after-sub-other-enc': '<dtml-var subo>|{L}<dtml-var x>{R}',
    'after-sub-other-enc-hq': '<dtml-var subo>|<dtml-var x html_quote '
                              'size=9999>{R}',
    'after-sub-other-enc-fmt': '{L}<dtml-var subo>|<dtml-var x '
                               'fmt=html-quote>',
    'after-sub-other-enc-in': '<dtml-in seq><dtml-var subo>&dtml-x;'
                              '<dtml-var x html_quote null="">{R}</dtml-in>',
    'epfs-if-else': '%(if f)[n%(else)[{L}%(x)s{R}%(if)]',
    'epfs-in-else': '%(in empty)[n%(else)[{L}%(x)s{R}%(in)]',
    'epfs': '{L}%(x)s{R}',
    'epfs-in': '%(in seq)[%(x)s{R}%(in)]',
}
MULTI = ('in-items-outer-names', 'in-items-outer-names-batch', 'try-else-both', 'try-finally-both', 'try-else-both-hq',
         'if-then-if', 'in-in', 'after-sub-other-enc', 'after-sub-other-enc-hq',
         'after-sub-other-enc-fmt', 'after-sub-other-enc-in',
         'in-batch-inner', 'in-mapping-inner', 'in-sort-inner',
         'two', 'in-body', 'in-items', 'in-batch', 'in-items-ent', 'epfs-in',
         'in-body-single')
NEIGH = [('', ''), ('a', 'b'), ('é', ''), ('', '中'), ('<', '\U0001F600'),
         (' ', ' ')]


class Holder:
    pass


def render(form, enc, L, R, value):
    from DocumentTemplate import HTML, String
    src = FORMS[form].replace('{L}', L).replace('{R}', R)
    cls = String if form.startswith('epfs') else HTML
    t = cls(src, encoding=enc)
    ox = Holder()
    ox.bx = value
    sub = HTML('[<dtml-var x>]', encoding=enc)
    sub2 = HTML(L + '<dtml-var x>' + R, encoding=enc)
    other = [e for e in ENCODINGS if e != enc][len(src) % 3]
    subo = HTML('(<dtml-var y>;<dtml-var y html_quote size=99>)',
                encoding=other)
    y = 'é€x'
    try:
        y.encode(other)
    except UnicodeError:
        y = 'éx'
    if isinstance(value, bytes):
        y = y.encode(other)
    return t(x=value, seq=[1, 2], xs=[value, value, value], t=1, f=0,
             empty=[], o=Holder(), ox=ox, sub=sub, sub2=sub2, subo=subo,
             y=y, title='News', upper='UP', count='C', hex='H', decode='D',
             lower='low', strip='S',
             ms=[dict(mx=value), dict(mx=value)]), src


def check(case):
    s, enc, form, ni = case['text'], case['enc'], case['form'], case['neigh']
    L, R = NEIGH[ni % len(NEIGH)]
    try:
        b = s.encode(enc)
        (L + R).encode(enc)
        if b.decode(enc) != s:
            return 'skip'      # the codec does not round-trip this text
    except UnicodeError:
        return 'skip'
    try:
        exp, src = render(form, enc, L, R, s)
    except Exception as e:
        return 'skip'
    try:
        got, src = render(form, enc, L, R, b)
    except Exception as e:
        return ('bytes-exception:%s:%s' % (type(e).__name__, form.split(
            '-')[0]), '%r (encoding=%s) with x=%r raised %r; with the text '
            'it renders %r' % (src, enc, b, e, exp))
    pieces2 = bool(L and '{L}' in FORMS[form]) or \
        bool(R and '{R}' in FORMS[form]) or form in MULTI
    if isinstance(got, bytes):
        if pieces2:
            return ('bytes-result:%s' % form, '%r (encoding=%s) with x=%r '
                    'returned bytes %r' % (src, enc, b, got))
        try:
            got = got.decode(enc)
        except UnicodeError:
            return ('undecodable-result:%s' % form, repr(got))
    if got != exp:
        how = 'other'
        try:
            if got == exp.encode(enc).decode('latin-1') or \
                    b.decode('latin-1') in got:
                how = 'decoded-as-latin-1'
            elif b.decode('utf-8', 'replace') in got:
                how = 'decoded-as-utf-8'
        except Exception:
            pass
        return ('wrong-text:%s:%s' % (how, form), '%r (encoding=%s): x=%r '
                'renders %r, x=%r renders %r' % (src, enc, b, got, s, exp))
    # the same bytes under the other encodings (in the same process, right
    # after the rendering above): they must be decoded with *that*
    # template's encoding
    for enc2 in ENCODINGS:
        if enc2 == enc:
            continue
        try:
            s2 = b.decode(enc2)
            (L + R).encode(enc2)
        except UnicodeError:
            continue
        try:
            exp2, src = render(form, enc2, L, R, s2)
            got2, src = render(form, enc2, L, R, b)
        except Exception:
            continue
        if isinstance(got2, bytes):
            try:
                got2 = got2.decode(enc2)
            except UnicodeError:
                continue
        if got2 != exp2:
            return ('wrong-text:after-other-encoding:%s' % form,
                    '%r: bytes %r rendered with encoding=%s gave %r '
                    '(expected %r) right after the same bytes were rendered '
                    'with encoding=%s' % (src, b, enc2, got2, exp2, enc))
    return None


# ----------------------------------------------------------- ustr table

class PlainClass:
    pass


class WithStr:
    def __str__(self):
        return 'with-str é'


class Meta(type):
    def __str__(cls):
        return 'meta-str of ' + cls.__name__


class WithMeta(metaclass=Meta):
    pass


class BadStrRaises:
    def __str__(self):
        raise RuntimeError('boom in __str__')


class BadStrType:
    def __str__(self):
        return 42


class StrSub(str):
    pass


class MyErr(Exception):
    pass


def a_function():
    pass


def table():
    """(label, value factory, expected text | exception class)."""
    rows = [
        ('int', lambda: 42, '42'), ('negint', lambda: -7, '-7'),
        ('bigint', lambda: 10 ** 30, str(10 ** 30)),
        ('float', lambda: 1.5, '1.5'), ('float-e', lambda: 1e30, '1e+30'),
        ('bool', lambda: True, 'True'), ('none', lambda: None, 'None'),
        ('complex', lambda: 1 + 2j, '(1+2j)'),
        ('list', lambda: [1, 'a'], "[1, 'a']"),
        ('tuple', lambda: (1, 2), '(1, 2)'), ('empty-tuple', lambda: (), '()'),
        ('dict', lambda: {'a': 1}, "{'a': 1}"),
        ('set', lambda: {1}, '{1}'), ('frozenset', lambda: frozenset([1]),
                                      'frozenset({1})'),
        ('range', lambda: range(3), 'range(0, 3)'),
        ('bytearray', lambda: bytearray(b'ab'), "bytearray(b'ab')"),
        ('str', lambda: 'text é 中', 'text é 中'),
        ('str-subclass', lambda: StrSub('sub'), 'sub'),
        ('plain-class', lambda: PlainClass, str(PlainClass)),
        ('class-with-str', lambda: WithStr, str(WithStr)),
        ('class-with-meta-str', lambda: WithMeta, 'meta-str of WithMeta'),
        ('builtin-class', lambda: int, "<class 'int'>"),
        ('exception-class', lambda: ValueError, "<class 'ValueError'>"),
        ('instance-with-str', lambda: WithStr(), 'with-str é'),
        ('function', lambda: len, '<built-in function len>'),
        ('exc0', lambda: ValueError(), ''),
        ('exc1', lambda: ValueError('msg é'), 'msg é'),
        ('exc1-int', lambda: ValueError(5), '5'),
        ('exc1-none', lambda: ValueError(None), 'None'),
        ('exc2', lambda: ValueError('a', 2), "('a', 2)"),
        ('exc-nested', lambda: ValueError(KeyError('inner')), 'inner'),
        ('exc-nested2', lambda: MyErr(ValueError(KeyError())), ''),
        ('exc-keyerror', lambda: KeyError('k'), 'k'),
        ('exc-custom', lambda: MyErr('mine'), 'mine'),
        ('exc-list-arg', lambda: MyErr([1, 2]), '[1, 2]'),
        ('bad-str-raises', lambda: BadStrRaises(), RuntimeError),
        ('bad-str-type', lambda: BadStrType(), (TypeError, ValueError)),
    ]
    return rows


def check_ustr(i):
    """Row i of the table through ustr(), plain insertion and the quoting
    forms (whose expected text is the escaped str() form)."""
    import html
    from DocumentTemplate import HTML
    from DocumentTemplate.ustr import ustr
    label, make, exp0 = table()[i]
    out = []
    quoted = {'hq': '[<dtml-var "v" html_quote>]',
              'hq-size': '[<dtml-var "v" html_quote size=999>]',
              'fmt-hq': '[<dtml-var "v" fmt=html-quote>]',
              'fmt-hq-size': '[<dtml-var "v" fmt=html-quote size=999>]'}
    for how in ('ustr', 'var') + tuple(sorted(quoted)):
        exp = exp0
        if how in quoted and not isinstance(exp0, (type, tuple)):
            exp = html.escape(exp0, quote=True)
        try:
            if how == 'ustr':
                got = ustr(make())
            elif how in quoted:
                got = HTML(quoted[how])(v=make())[1:-1]
            else:
                got = HTML('[<dtml-var "v">]')(v=make())[1:-1]
        except Exception as e:
            if isinstance(exp, (type, tuple)) and isinstance(e, exp):
                continue
            out.append(('ustr-exception:%s:%s' % (how, label),
                        '%s of %s raised %r, expected %r' % (how, label, e,
                                                             exp)))
            continue
        if isinstance(exp, (type, tuple)):
            out.append(('ustr-no-exception:%s' % label,
                        '%s of %s returned %r' % (how, label, got)))
        elif got != exp:
            out.append(('ustr-text:%s:%s' % (how, label),
                        '%s of %s gave %r, expected %r' % (how, label, got,
                                                           exp)))
    return out


def check_exc_bytes():
    """Exception with a bytes argument inside a larger rendering."""
    from DocumentTemplate import HTML
    out = []
    for enc in ('utf-8', 'latin-1'):
        s = 'wé'
        t = HTML('<<dtml-var "v">>', encoding=enc)
        try:
            got = t(v=ValueError(s.encode(enc)))
        except Exception as e:
            out.append(('ustr-exception:var:exc-bytes', repr(e)))
            continue
        if got != '<%s>' % s:
            out.append(('ustr-text:var:exc-bytes', '%s: %r' % (enc, got)))
    return out


SPECIAL_TEXTS = ['\ufeffx', '\ufeff', 'x\ufeff', '\ufeff<é', '\ufffea',
                 '\x00a', 'a\x00', '\u2028a', '\xefa', 'ï»¿x', 'þÿx']


def strategy():
    from hypothesis import strategies as st
    ch = st.one_of(
        st.sampled_from(list('aZ09 <>&"\'')),
        st.characters(min_codepoint=0xa0, max_codepoint=0xff),
        st.characters(min_codepoint=0x100, max_codepoint=0xffff,
                      blacklist_categories=('Cs',)),
        st.sampled_from(['€', 'Š', '™', 'ß', 'é', '中', '\U0001F600',
                         '\U00010400', '\x80', '\x9f']))
    text = st.lists(ch, min_size=0, max_size=8).map(''.join)
    return st.fixed_dictionaries(dict(
        text=text, enc=st.sampled_from(ENCODINGS),
        form=st.sampled_from(sorted(FORMS)),
        neigh=st.integers(0, len(NEIGH) - 1)))


def nontrivial(case):
    s, enc = case['text'], case['enc']
    try:
        b = s.encode(enc)
    except UnicodeError:
        return False
    L, R = NEIGH[case['neigh'] % len(NEIGH)]
    differs = b.decode('latin-1') != s
    form = case['form']
    return differs and (bool(L and '{L}' in FORMS[form]) or
                        bool(R and '{R}' in FORMS[form]) or form in MULTI)


def plan(tier, seed):
    n = 2000 if tier == "quick" else 20000
    shards = [dict(kind='random', seed=seed * 1000 + i, n=n)
              for i in range(15)]
    shards.append(dict(kind='ustr'))
    for i in range(4):
        shards.append(dict(kind='special', part=i, parts=4))
    return shards


def run_shard(shard):
    acc = Acc(ID, sample_every=71)
    if shard['kind'] == 'ustr':
        for i, row in enumerate(table()):
            acc.case(['ustr', row[0]], True, klass='ustr-table', n=2,
                     distinct_by_construction=True)
            for b, msg in check_ustr(i):
                acc.fail(b, ['ustr', i, row[0]], msg)
        for b, msg in check_exc_bytes():
            acc.fail(b, ['ustr-exc-bytes'], msg)
        return acc.result()
    if shard['kind'] == 'special':
        # texts that start or end with characters codecs treat specially
        # (byte order marks, NUL, line separators), every form x encoding
        cases = [dict(text=t, enc=e, form=f, neigh=n)
                 for t in SPECIAL_TEXTS for e in ENCODINGS
                 for f in sorted(FORMS) for n in (0, 1)]
        for case in cases[shard['part']::shard['parts']]:
            bad = check(case)
            if bad == 'skip':
                continue
            acc.case(case, True, klass='special-text',
                     distinct_by_construction=True)
            if bad:
                acc.fail(bad[0], case, bad[1])
        return acc.result()
    strat = strategy()

    def one(case):
        bad = check(case)
        if bad == 'skip':
            acc.case(case, False, klass='skipped-not-encodable')
            return
        acc.case(case, nontrivial(case), klass=['form:' + case['form'],
                                                'enc:' + case['enc']])
        if bad:
            acc.fail(bad[0], case, bad[1])
    hyp_run(strat, one, shard['n'], shard['seed'])

    def bucket_of(c):
        b = check(c)
        return b[0] if b and b != 'skip' else None
    shrink_failures(acc, strat, bucket_of, shard['seed'])
    return acc.result()


def replay(case):
    if isinstance(case, list):
        if case[0] == 'ustr':
            f = check_ustr(case[1])
        else:
            f = check_exc_bytes()
        return f[0] if f else None
    b = check(case)
    return b if b and b != 'skip' else None
