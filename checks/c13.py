"""C13 - sorting yields a stable, correctly ordered permutation and never
mutates the input.  Oracle: validity predicate over the rendered order."""
import datetime
import decimal

from vf.engine import Acc, hyp_run, shrink_failures

ID = 'C13'
RULE = ('Hypothesis: lists of 0..8 elements (objects, or dicts with '
        '"mapping"; plain ints / strings / (key, value) pairs for item '
        'sorts) whose keys come from small domains with duplicates, None and '
        'missing; key types int, str, float, bool, date, Decimal and '
        'zero-argument callables; sort specs k, k/cmp, k/nocase, k/cmp/desc, '
        'k/nocase/desc, a user comparison function, k1,k2 with every '
        'function / direction pair, empty sort, sort=sequence-item, '
        'sort_expr (optionally on a compiled template that was rendered with '
        'another spec before); with / without reverse, reverse_expr, mapping, '
        'batching. '
        'Checked: permutation, adjacent elements ordered under the spec, '
        'equal keys keep input order, missing / None first, reverse is the '
        'exact reverse, batch = slice of the full order, input list and '
        'elements unchanged.  Non-trivial: >= 3 elements with >= 1 duplicate '
        'key and >= 1 inversion in input order.  Distinct = case hash.')
RULE += (
         'Also: item sorts combined with a batch window. ')
RULE += (
         'Directions spelled in any case. ')
RULE += ('Round 8: the loop nested in a sorted / reversed loop over the same sequence shows the order it shows alone. ')
ASSUMPTIONS = [
    'keys inside one list are mutually comparable (one type, plus None / '
    'missing)',
    'under a /desc key the position of None / missing keys is not asserted '
    '(the statement is ambiguous: "None first" vs "desc inverts")',
    '/nocase and user-function keys are never None / missing (the '
    'comparison function would be handed an internal sentinel)',
]

DOM = {
    'int': [0, 1, 2, 3, -1, -2],
    'str': ['a', 'B', 'b', 'A', 'c', ''],
    'float': [0.5, 1.5, -2.0, 1.5, 0.25],
    'bool': [True, False],
    'date': [1, 2, 3, 15],
    'dec': ['1', '2.5', '-3', '2.50'],
    'call': [1, 2, 3, 0],
}


class O:
    def __init__(self, **kw):
        self.__dict__.update(kw)


def live_key(t, spec):
    """-> (attribute value or MISSING, comparable key value or None)."""
    if spec == 'missing':
        return MISSING, None
    if spec is None:
        return None, None
    if spec == 'callnone':
        # a callable attribute whose result is None: the key is None
        return (lambda: None), None
    if t == 'date':
        v = datetime.date(2020, 1, spec)
        return v, v
    if t == 'dec':
        v = decimal.Decimal(spec)
        return v, v
    if t == 'call':
        return (lambda v=spec: v), spec
    return spec, spec


MISSING = object()


def absf(a, b):
    a, b = abs(a), abs(b)
    return (a > b) - (a < b)


def cmp_for(func):
    if func == 'nocase':
        return lambda a, b: (a.lower() > b.lower()) - (a.lower() < b.lower())
    if func == 'absf':
        return absf
    return lambda a, b: (a > b) - (a < b)


def samekey(case):
    """Both parts of a two-key spec name the same attribute (with different
    functions / directions)."""
    return bool(case.get('samekey')) and len(case['types']) == 2 and \
        case['types'][0] == case['types'][1]


def spec_text(case):
    parts = []
    for j, (f, d) in enumerate(case['funcs']):
        s = 'k%d' % (0 if samekey(case) else j)
        if f:
            s += '/' + f
            if d:
                # the direction may be spelled in any case
                sp = (case.get('spell', 0) + j) % 4
                s += '/' + [d, d.upper(), d.capitalize(), d][sp]
        parts.append(s)
    return ','.join(parts)


def build(case):
    """-> (elements, keyvals) ; keyvals[i][j] comparable key or None."""
    els, kvs = [], []
    for i, keys in enumerate(case['keys']):
        kw = {'i': i}
        row = []
        for j, t in enumerate(case['types']):
            attr, kv = live_key(t, keys[0 if samekey(case) else j])
            if attr is not MISSING:
                kw['k%d' % j] = attr
            row.append(kv)
        els.append(kw if case['mapping'] else O(**kw))
        kvs.append(row)
    return els, kvs


def source(case, reverse=None, batch='case'):
    a = [{'expr': '"s"', 'expr=': 'expr="s"'}.get(case.get('seq'), 's')]
    if case['mapping']:
        a.append('mapping')
    if case['via'] == 'sort_expr':
        a.append('sort_expr="spec"')
    else:
        a.append('sort=%s' % spec_text(case))
    rv = case['reverse'] if reverse is None else reverse
    if rv == 'flag':
        a.append('reverse')
    elif rv == 'expr-true':
        a.append('reverse_expr="1 == 1"')
    elif rv == 'expr-false':
        a.append('reverse_expr="1 == 2"')
    b = case['batch'] if batch == 'case' else batch
    if b:
        a.append('start=%d size=%d orphan=0' % tuple(b))
    return '<dtml-in %s><dtml-var i>,</dtml-in>' % ' '.join(a)


def render(case, **kw):
    from DocumentTemplate import HTML
    els, kvs = build(case)
    orig = list(els)
    snap = [dict(e) if case['mapping'] else dict(e.__dict__) for e in els]
    t = HTML(source(case, **kw))
    # the same compiled template was used before: with another spec (when
    # the case has one), on another list, and with the comparison function
    # name bound to another function
    try:
        t(s=list(reversed(els)),
          spec=spec_text(dict(case, funcs=case['prev'])) if case.get('prev')
          else spec_text(case), absf=lambda a, b: -absf(a, b))
    except Exception:
        pass
    out = t(s=els, spec=spec_text(case), absf=absf)
    order = [int(x) for x in out.split(',')[:-1]]
    mutated = (els != orig or len(els) != len(orig) or
               any(a is not b for a, b in zip(els, orig)) or
               any((dict(e) if case['mapping'] else e.__dict__) != s
                   for e, s in zip(els, snap)))
    return order, kvs, mutated


def typekey(case):
    return '%s:%s' % ('+'.join(case['types']),
                      '+'.join('%s/%s' % (f or 'default', d or 'asc')
                               for f, d in case['funcs']))


def check(case):
    n = len(case['keys'])
    try:
        full, kvs, mutated = render(case, reverse='none', batch=None)
    except Exception as e:
        return ('exception:%s:%s' % (type(e).__name__, typekey(case)),
                '%s raised %r' % (source(case, reverse='none', batch=None),
                                  e))
    src = source(case, reverse='none', batch=None)
    if mutated:
        return 'input-mutated', '%s on %r' % (src, case['keys'])
    if sorted(full) != list(range(n)):
        return 'not-a-permutation', '%s on %r showed %r' % (src, case['keys'],
                                                            full)
    funcs = case['funcs']
    for a, b in zip(full, full[1:]):
        res, skip = 0, False
        for j, (f, d) in enumerate(funcs):
            ka, kb = kvs[a][j], kvs[b][j]
            if ka is None and kb is None:
                skip = True       # mutual order of missing keys unspecified
                break
            if ka is None or kb is None:
                if d == 'desc':
                    skip = True   # ambiguous in the statement
                    break
                res = -1 if ka is None else 1
                break
            c = cmp_for(f)(ka, kb) * (-1 if d == 'desc' else 1)
            if c:
                res = c
                break
        if skip:
            continue
        if res > 0:
            kind = 'none-not-first' if any(
                kvs[a][j] is None or kvs[b][j] is None
                for j in range(len(funcs))) else 'order'
            return ('%s:%s' % (kind, typekey(case)),
                    '%s on keys %r showed %r: element %d before %d' % (
                        src, case['keys'], full, a, b))
        if res == 0 and a > b:
            return ('unstable:%s' % typekey(case),
                    '%s on keys %r showed %r: equal keys %d, %d swapped' % (
                        src, case['keys'], full, a, b))
    # the same loop inside the body of another loop over the same sequence
    # that is itself sorted or reversed: the order shown does not depend on
    # what an enclosing block did with its copy
    if n >= 2:
        from DocumentTemplate import HTML
        inner = source(case, reverse='none', batch=None)
        for outer in ('reverse', 'sort=i/cmp/desc', 'sort=i reverse'):
            nsrc = '<dtml-in s %s%s size=1 orphan=0>%s</dtml-in>' % (
                'mapping ' if case['mapping'] else '', outer, inner)
            els, _ = build(case)
            try:
                out = HTML(nsrc)(s=els, spec=spec_text(case), absf=absf)
                got = [int(x) for x in out.split(',')[:-1]]
            except Exception as e:
                got = repr(e)
            if got != full:
                return ('nested-same-sequence:%s' % outer.split('=')[0],
                        '%s on keys %r showed %r for the inner loop, alone '
                        'it shows %r' % (nsrc, case['keys'], got, full))
    # reverse = exact reverse of what would otherwise be shown
    if case['reverse'] != 'none':
        try:
            rev, _, mut = render(case, batch=None)
        except Exception as e:
            return ('exception-reverse:%s' % type(e).__name__, repr(e))
        exp = full[::-1] if case['reverse'] != 'expr-false' else full
        if rev != exp or mut:
            return ('reverse:%s' % case['reverse'],
                    '%s showed %r, without reverse %r' % (
                        source(case, batch=None), rev, full))
    # batching shows a slice of the same order
    if case['batch'] and n:
        try:
            got, _, mut = render(case)
        except Exception as e:
            return ('exception-batch:%s' % type(e).__name__, repr(e))
        base = full[::-1] if case['reverse'] in ('flag', 'expr-true') \
            else full
        st_, sz = case['batch']
        lo = min(st_, n) - 1
        exp = base[lo:min(lo + sz, n)]
        if got != exp or mut:
            return ('batch-slice', '%s showed %r, full order %r' % (
                source(case), got, base))
    return None


class NoOrder:
    """Value of a (key, value) pair that supports no comparison."""

    def __init__(self, i):
        self.i = i

    def __str__(self):
        return 'v%d' % self.i


class PairStr(str):
    """String value that orders against the input order."""

    def __new__(cls, text, rank):
        o = str.__new__(cls, text)
        o.rank = rank
        return o

    def __lt__(self, other):
        return self.rank < other.rank

    def __gt__(self, other):
        return self.rank > other.rank

    __hash__ = str.__hash__


def check_item(case):
    """Empty sort / sort=sequence-item: order by the element, or by the key
    of (key, value) pairs."""
    from DocumentTemplate import HTML
    kind, vals, how, rev = case['kind'], case['vals'], case['how'], \
        case['rev']
    if kind == 'pair':
        # the values of the pairs take no part in the ordering: they come
        # in descending order, or cannot be compared at all
        if case.get('pairval') == 'object':
            els = [(v, NoOrder(i)) for i, v in enumerate(vals)]
        elif case.get('pairval') == 'desc':
            els = [(v, PairStr('v%d' % i, 99 - i))
                   for i, v in enumerate(vals)]
        else:
            els = [(v, 'v%d' % i) for i, v in enumerate(vals)]
        body = '<dtml-var sequence-key>:<dtml-var sequence-item>,'
    else:
        els = list(vals)
        body = '<dtml-var sequence-item>,'
    orig = list(els)
    batch = case.get('batch')
    src = '<dtml-in %s %s%s%s>%s</dtml-in>' % (
        {'expr': '"s"', 'expr=': 'expr="s"'}.get(case.get('seq'), 's'),
        {'empty': 'sort', 'empty=': 'sort=""'}.get(how,
                                                    'sort=sequence-item'),
        ' reverse' if rev else '',
        ' start=%d size=%d orphan=0' % tuple(batch) if batch else '', body)
    try:
        out = HTML(src)(s=els)
    except Exception as e:
        return 'item-exception:%s' % type(e).__name__, '%s: %r' % (src, e)
    if els != orig:
        return 'input-mutated', src
    order = sorted(range(len(vals)), key=lambda i: vals[i])   # stable
    if rev:
        order = order[::-1]
    if batch:
        # the batch is a window of the ordered sequence
        first = min(batch[0], len(order)) - 1
        order = order[max(first, 0):max(first, 0) + batch[1]] \
            if order else order
    if kind == 'pair':
        exp = ''.join('%s:v%d,' % (vals[i], i) for i in order)
    else:
        exp = ''.join('%s,' % vals[i] for i in order)
    if out != exp:
        return ('item-order:%s' % kind, '%s on %r rendered %r expected %r' % (
            src, els, out, exp))
    return None


def strategy():
    from hypothesis import strategies as st

    def keyed(draw_types):
        types, funcs = draw_types[0], draw_types[1]
        prev = draw_types[2] if len(draw_types) > 2 else None

        def key_for(t, f):
            vals = st.sampled_from(DOM[t])
            if f in ('nocase', 'absf'):
                # a comparison function of the author's sees real keys only
                return vals
            if t == 'call':
                return st.one_of(vals, vals, vals, vals, st.none(),
                                 st.just('missing'), st.just('callnone'))
            return st.one_of(vals, vals, vals, vals, st.none(),
                             st.just('missing'))
        row = st.tuples(*[key_for(t, f[0]) for t, f in zip(types, funcs)])
        return st.fixed_dictionaries(dict(
            kind=st.just('keyed'),
            types=st.just(list(types)), funcs=st.just([list(f)
                                                       for f in funcs]),
            keys=st.lists(row.map(list), min_size=0, max_size=8),
            mapping=st.booleans(),
            prev=st.just([list(f) for f in prev] if prev else None),
            via=st.sampled_from(['sort', 'sort', 'sort_expr']),
            seq=st.sampled_from(['name', 'name', 'expr', 'expr=']),
            samekey=st.booleans(),
            reverse=st.sampled_from(['none', 'none', 'flag', 'expr-true',
                                     'expr-false']),
            batch=st.one_of(st.none(), st.none(), st.tuples(
                st.integers(1, 6), st.integers(1, 5)))))

    def funcs_for(t):
        opts = [('', ''), ('cmp', ''), ('cmp', 'asc'), ('cmp', 'desc')]
        if t == 'str':
            opts += [('nocase', ''), ('nocase', 'desc'), ('nocase', 'asc')]
        if t == 'int':
            opts += [('absf', ''), ('absf', 'desc')]
        return st.sampled_from(opts)
    one = st.sampled_from(list(DOM)).flatmap(
        lambda t: st.tuples(st.just((t,)), st.tuples(funcs_for(t)),
                            st.one_of(st.none(), st.tuples(funcs_for(t)))))
    two = st.tuples(st.sampled_from(list(DOM)),
                    st.sampled_from(list(DOM))).flatmap(
        lambda ts: st.tuples(st.just(ts), st.tuples(funcs_for(ts[0]),
                                                    funcs_for(ts[1])),
                             st.one_of(st.none(), st.tuples(
                                 funcs_for(ts[0]), funcs_for(ts[1])))))
    keyed_cases = st.one_of(one, one, two).flatmap(keyed).flatmap(
        lambda c: st.integers(0, 3).map(lambda sp: dict(c, spell=sp)))
    item = st.fixed_dictionaries(dict(
        kind=st.sampled_from(['int', 'str', 'pair']),
        how=st.sampled_from(['empty', 'sequence-item', 'empty=']),
        rev=st.booleans(),
        batch=st.one_of(st.none(), st.tuples(st.integers(1, 4),
                                             st.integers(1, 4))),
        pairval=st.sampled_from(['str', 'desc', 'object']),
        seq=st.sampled_from(['name', 'expr', 'expr=']),
        vals=st.just(None))).flatmap(lambda c: st.lists(
            st.integers(-3, 3) if c['kind'] != 'str'
            else st.sampled_from(['a', 'b', 'B', 'aa', '']),
            max_size=8).map(lambda v: dict(c, vals=v, kind=(
                'pair' if c['kind'] == 'pair' else c['kind']))))
    revonly = st.fixed_dictionaries(dict(
        kind=st.just('revonly'),
        vals=st.lists(st.integers(0, 9), max_size=7),
        container=st.sampled_from(['list', 'list', 'tuple']),
        seq=st.sampled_from(['name', 'expr', 'expr=', 'attr']),
        how=st.sampled_from(['flag', 'expr', 'expr-var']),
        batch=st.one_of(st.none(), st.tuples(st.integers(1, 4),
                                             st.integers(1, 4)))))
    return st.one_of(keyed_cases, keyed_cases, keyed_cases, item, revonly)


def nontrivial(case):
    if case['kind'] == 'revonly':
        return len(case['vals']) >= 2
    if case['kind'] != 'keyed':
        v = case['vals']
        return len(v) >= 3 and len(set(v)) < len(v) and \
            any(a > b for a, b in zip(v, v[1:]))
    ks = [repr(k) for k in case['keys']]
    firsts = [k[0] for k in case['keys']]
    inv = any(a is not None and b is not None and a != 'missing' and
              b != 'missing' and a > b for a, b in zip(firsts, firsts[1:])
              if type(a) is type(b))
    return len(ks) >= 3 and len(set(ks)) < len(ks) and inv


def check_reverse_only(case):
    """reverse (without any sort) shows the exact reverse of the sequence;
    the caller's sequence is left as it was, whichever way it is handed to
    the tag, and a second rendering shows the same."""
    from DocumentTemplate import HTML
    vals = list(case['vals'])
    els = vals if case['container'] == 'list' else tuple(vals)
    orig = list(els)
    seq = {'expr': '"s"', 'expr=': 'expr="s"', 'attr': '"h.rows"'}.get(
        case['seq'], 's')
    rev = {'flag': 'reverse', 'expr': 'reverse_expr="1"',
           'expr-var': 'reverse_expr="rv"'}[case['how']]
    b = case.get('batch')
    src = '<dtml-in %s %s%s><dtml-var sequence-item>,</dtml-in>' % (
        seq, rev, ' size=%d start=%d orphan=0' % tuple(b) if b else '')
    t = HTML(src)

    class H:
        rows = els
    outs = []
    for _ in (1, 2):
        try:
            outs.append(t(s=els, h=H(), rv=1))
        except Exception as e:
            return 'reverse-only:exception:%s' % type(e).__name__, \
                '%s on %r: %r' % (src, orig, e)
        if list(els) != orig:
            return 'input-mutated', '%s turned the caller\'s %r into %r' % (
                src, orig, list(els))
    shown = orig[::-1]
    if b:
        shown = shown[b[1] - 1:b[1] - 1 + b[0]] if b[1] <= len(shown) \
            else None
    if shown is not None:
        exp = ''.join('%s,' % v for v in shown)
        if outs[0] != exp:
            return 'reverse-only:order', '%s on %r rendered %r' % (
                src, orig, outs[0])
    if outs[0] != outs[1]:
        return 'reverse-only:second-render-differs', '%s on %r: %r then ' \
            '%r' % (src, orig, outs[0], outs[1])
    return None


def run_case(case):
    if case['kind'] == 'keyed':
        return check(case)
    if case['kind'] == 'revonly':
        return check_reverse_only(case)
    return check_item(case)


def plan(tier, seed):
    n = 2000 if tier == 'quick' else 12000
    return [dict(seed=seed * 1000 + i, n=n) for i in range(16)]


def run_shard(shard):
    acc = Acc(ID, sample_every=83)
    strat = strategy()

    def one(case):
        bad = run_case(case)
        acc.case(case, nontrivial(case), klass=case['kind'] if case['kind']
                 != 'keyed' else ['keyed', 'keys:%d' % len(case['types'])])
        if bad:
            acc.fail(bad[0], case, bad[1])
    hyp_run(strat, one, shard['n'], shard['seed'])

    def bucket_of(c):
        b = run_case(c)
        return b[0] if b else None
    shrink_failures(acc, strat, bucket_of, shard['seed'])
    return acc.result()


def replay(case):
    return run_case(case)
