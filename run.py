#!/venv/bin/python
"""Entry point of the /verif machinery.

    run.py <ID> [quick|thorough]        run the check of one property
    run.py <ID> --replay <path>         re-check one saved case (no Hypothesis)
    run.py --list                       list the checks

exit 0: property held on everything explored (KNOWN-FINDING lines may be printed)
exit 1: a line "VIOLATION property=<ID> replay=<path>" was printed
exit 2: harness error (never a verdict about the code under test)
"""
import os
import sys

HERE = os.path.dirname(os.path.abspath(__file__))


def _reexec():
    want = {'PYTHONHASHSEED': '0', 'PYTHONDONTWRITEBYTECODE': '1'}
    if any(os.environ.get(k) != v for k, v in want.items()):
        env = dict(os.environ)
        env.update(want)
        os.execve(sys.executable, [sys.executable] + sys.argv, env)


def main():
    _reexec()
    os.chdir(HERE)
    src = os.environ.get('VERIF_REPO_SRC', '/repo/src')
    sys.path.insert(0, src)
    sys.path.insert(0, HERE)
    deps = os.path.join(HERE, '.deps')
    if os.path.isdir(deps):
        sys.path.append(deps)
    from vf import engine
    try:
        rc = engine.main(sys.argv[1:])
    except SystemExit:
        raise
    except BaseException:
        import traceback
        traceback.print_exc()
        print('HARNESS-ERROR (exit 2): the check itself failed; this is not '
              'a verdict about the code under test')
        rc = 2
    sys.stdout.flush()
    sys.exit(rc)


if __name__ == '__main__':
    main()
