#!/venv/bin/python
"""Sensitivity self-test: apply hand-written mutants (one at a time) to a
scratch copy of /repo/src, run the quick check of the property with
VERIF_REPO_SRC pointing at the copy and demand a VIOLATION.

    selftest/mutants.py [--tests] [ID ...]

--tests additionally runs the repository's 94 tests on the mutated copy (a
mutant that the tests already catch is reported as 'killed-by-tests').
Nothing is written to /repo; the scratch copy lives under a temp dir and is
removed afterwards.  Results go to selftest/RESULTS.md.
"""
import os
import shutil
import subprocess
import sys
import tempfile
import time

ROOT = os.path.dirname(os.path.dirname(os.path.abspath(__file__)))
PY = '/venv/bin/python'
DT = 'DocumentTemplate/'

# (property, label, file, old, new)
M = [
    ('C01', 'skip_eol-greedy', DT + 'DT_String.py',
     "eol=re.compile('[ \\t]*\\n')", "eol=re.compile('\\\\s*\\n')"),
    ('C01', 'no-skip-after-close', DT + 'DT_String.py',
     "                start = self.skip_eol(text, l_ + len(tag))",
     "                start = l_ + len(tag)"),
    ('C01', 'rstrip-literal', DT + 'DT_String.py',
     "            s = text[start:l_]\n            if s:\n                "
     "result.append(s)\n            start = l_ + len(tag)\n\n            if "
     "hasattr(command, 'blockContinuations'):",
     "            s = text[start:l_].rstrip(' ')\n            if s:\n        "
     "        result.append(s)\n            start = l_ + len(tag)\n\n       "
     "     if hasattr(command, 'blockContinuations'):"),
    ('C01', 'drop-single-char-tail', DT + 'DT_String.py',
     "        text = text[start:]\n        if text:\n            "
     "result.append(text)\n        return result",
     "        text = text[start:]\n        if len(text) > 1:\n            "
     "result.append(text)\n        return result"),
    ('C02', 'mapping-after-client', DT + 'DT_String.py',
     "            if mapping:\n                push(mapping)\n            "
     "md.guarded_getattr",
     "            md.guarded_getattr"),
    ('C02', 'kw-before-vars', DT + 'DT_String.py',
     "        if self._vars:\n            push(self._vars)\n            "
     "pushed = pushed + 1\n\n        if kw:\n            push(kw)\n          "
     "  pushed = pushed + 1",
     "        if kw:\n            push(kw)\n            pushed = pushed + 1\n"
     "\n        if self._vars:\n            push(self._vars)\n            "
     "pushed = pushed + 1"),
    ('C02', 'client-tuple-reversed', DT + 'DT_String.py',
     "                for ob in client:",
     "                for ob in reversed(client):"),
    ('C02', 'eval-calls-names', DT + 'DT_Util.py',
     "d[name] = md.getitem(name, 0)", "d[name] = md.getitem(name, 1)"),
    ('C03', 'fast-path-forgets-lt', DT + '_DocumentTemplate.py',
     "if ('&' in t or '<' in t or '>' in t or '\"' in t",
     "if ('&' in t or '>' in t or '\"' in t"),
    ('C03', 'escape-without-quotes', DT + 'html_quote.py',
     "return escape(v, 1)", "return escape(v, 0)"),
    ('C03', 'entity-forgets-html_quote', DT + 'DT_HTML.py',
     "d[3] = d['args'] = args + ' html_quote'", "d[3] = d['args'] = args"),
    ('C04', 'no-final-quoting', DT + 'DT_Var.py',
     "        if isinstance(val, TaintedString):\n            val = "
     "val.quoted()\n\n        return val",
     "        if isinstance(val, TaintedString):\n            val = "
     "str(val)\n\n        return val"),
    ('C04', 'lower-untaints', DT + 'DT_Var.py',
     "def lower(val):\n    return val.lower()",
     "def lower(val):\n    return str(val).lower()"),
    ('C04', 'percent-format-untaints', DT + 'DT_Var.py',
     "                        val = TaintedString(fmt % val)\n               "
     "     else:\n                        val = fmt % val\n\n            if "
     "tainted:",
     "                        val = fmt % val\n                    else:\n    "
     "                    val = fmt % val\n\n            if False:"),
    ('C05', 'instancedict-plain-getattr', DT + '_DocumentTemplate.py',
     "        get = self.guarded_getattr\n        if get is None:\n          "
     "  get = getattr\n\n        try:\n            result = get(self.inst, "
     "key)",
     "        get = getattr\n\n        try:\n            result = "
     "get(self.inst, key)"),
    ('C05', 'instancedict-no-underscore-test', DT + '_DocumentTemplate.py',
     "        if key[0] == '_':\n            if key != '__str__':",
     "        if key[0] == '_' and False:\n            if key != '__str__':"),
    ('C05', 'with-only-drops-guards', DT + 'DT_With.py',
     "            if hasattr(_md, 'guarded_getattr'):\n                "
     "md.guarded_getattr = _md.guarded_getattr",
     "            if False:\n                md.guarded_getattr = "
     "_md.guarded_getattr"),
    ('C05', 'fmt-method-plain-getattr', DT + 'DT_Var.py',
     "                if hasattr(val, fmt):\n                    val = "
     "_get(val, fmt)()\n                elif fmt in special_formats:\n        "
     "            if fmt == 'html-quote' and \\\n                       "
     "isinstance(val, TaintedString):\n                        # "
     "TaintedStrings will be quoted by default, don't\n                      "
     "  # double quote.\n                        pass\n                    "
     "else:\n                        val = self._special_format(fmt, val, "
     "name, md)\n                elif fmt == '':\n                    val = "
     "''\n                else:\n                    if isinstance(val, "
     "TaintedString):\n                        val = TaintedString(fmt % "
     "val)\n                    else:\n                        val = fmt % "
     "val\n\n            if tainted:",
     None),
    ('C05', 'in-items-unguarded', DT + 'DT_In.py',
     "                guarded_getitem = getattr(md, 'guarded_getitem', None)"
     "\n                for index in range(first, end):",
     "                guarded_getitem = None\n                for index in "
     "range(first, end):"),
    ('C06', 'parse_error-line-off-by-one', DT + 'DT_String.py',
     "len(text[:start].split('\\n'))", "len(text[:start].split('\\n')) - 1"),
    ('C06', 'if-accepts-two-else', DT + 'DT_If.py',
     "            if tname == 'else':\n                raise ParseError(",
     "            if tname == 'else' and False:\n                raise "
     "ParseError("),
    ('C06', 'name-and-expr-accepted', DT + 'DT_Util.py',
     "    elif attr in params:\n        if expr:\n            if 'expr' in "
     "params:\n                raise ParseError('%s and expr given' % attr, "
     "tag)",
     "    elif attr in params:\n        if expr:\n            if False:\n    "
     "            raise ParseError('%s and expr given' % attr, tag)"),
    ('C06', 'unknown-attribute-ignored', DT + 'DT_Util.py',
     "    if name not in parms:\n        raise ParseError(\n            "
     "'Invalid attribute name, \"%s\"' % name, tag)",
     "    if name not in parms:\n        return parse_params(text[l_:]."
     "strip(), result, **parms) if text[l_:].strip() else result"),
    ('C07', 'ssi-end-case-sensitive', DT + 'DT_HTML.py',
     "end_match=re.compile('[\\000- ]*(/|end)', re.IGNORECASE).match",
     "end_match=re.compile('[\\000- ]*(/|end)').match"),
    ('C07', 'epfs-bang-not-block', DT + 'DT_String.py',
     "        elif fmt == '[' or fmt == '!':", "        elif fmt == '[':"),
    ('C07', 'entity-modifiers-first-dot-only', DT + 'DT_HTML.py',
     "args[:nn].replace('.', ' '))", "args[:nn].replace('.', ' ', 1))"),
    ('C08', 'let-no-finally', DT + 'DT_Let.py',
     "        try:\n            for name, expr in self.args:\n               "
     " if isinstance(expr, str):\n                    d[name] = md[expr]\n   "
     "             else:\n                    d[name] = expr(md)\n           "
     " return render_blocks(self.section, md, encoding=self.encoding)\n      "
     "  finally:\n            md._pop(1)",
     "        for name, expr in self.args:\n            if isinstance(expr, "
     "str):\n                d[name] = md[expr]\n            else:\n         "
     "       d[name] = expr(md)\n        r = render_blocks(self.section, md, "
     "encoding=self.encoding)\n        md._pop(1)\n        return r"),
    ('C08', 'with-no-finally', DT + 'DT_With.py',
     "        md._push(v)\n        try:\n            return "
     "render_blocks(self.section, md, encoding=self.encoding)\n        "
     "finally:\n            md._pop(1)",
     "        md._push(v)\n        r = render_blocks(self.section, md, "
     "encoding=self.encoding)\n        md._pop(1)\n        return r"),
    ('C08', 'level-not-restored', DT + 'DT_String.py',
     "            md.level = level  # Restore previous level", "            "
     "pass"),
    ('C08', 'if-pop-only-on-success', DT + '_DocumentTemplate.py',
     "                finally:\n                    md._pop()\n\n            "
     "else:\n                raise ValueError(",
     "                except BaseException:\n                    raise\n      "
     "          else:\n                    md._pop()\n\n            else:\n  "
     "              raise ValueError("),
    ('C09', 'no-break-after-true', DT + '_DocumentTemplate.py',
     "                            m = -1\n                            break",
     "                            m = -1"),
    ('C09', 'no-cache', DT + '_DocumentTemplate.py',
     "                                cache[n] = cond",
     "                                pass"),
    ('C09', 'unless-as-if', DT + 'DT_If.py',
     "self.simple_form = ('i', cond, None, section.blocks)",
     "self.simple_form = ('i', cond, section.blocks)"),
    ('C10', 'end-flag-off-by-one', DT + 'DT_In.py',
     "                if index == last:\n                    "
     "pkw['sequence-end'] = 1\n                if guarded_getitem is not "
     "None:",
     "                if index == l_:\n                    "
     "pkw['sequence-end'] = 1\n                if guarded_getitem is not "
     "None:"),
    ('C10', 'letter-from-A', DT + 'DT_InSV.py',
     "        return chr(ord('a') + index)", "        return chr(ord('A') + "
     "index)"),
    ('C10', 'odd-equals-even', DT + 'DT_InSV.py',
     "        return index % 2\n", "        return index % 2 == 0\n"),
    ('C10', 'first-compares-wrong-neighbour', DT + 'DT_InSV.py',
     "        return self.value(index, name) != self.value(index - 1, name)",
     "        return self.value(index, name) != self.value(index + 1, name)"
     " if index + 1 < len(self.items) else 1"),
    ('C11', 'orphan-test', DT + 'DT_InSV.py',
     "            end = start + size - 1\n            try:\n                "
     "sequence[end + orphan - 1]\n            except Exception:\n            "
     "    end = len(sequence)\n\n    elif end > 0:",
     "            end = start + size - 1\n            try:\n                "
     "sequence[end + orphan]\n            except Exception:\n                "
     "end = len(sequence)\n\n    elif end > 0:"),
    ('C11', 'next-start-ignores-plus-one', DT + 'DT_In.py',
     "                            pstart, pend, psize = opt(end + 1 - "
     "overlap, 0,\n                                                      sz, "
     "orphan, sequence)\n                            if index == last:",
     "                            pstart, pend, psize = opt(end - overlap, "
     "0,\n                                                      sz, orphan, "
     "sequence)\n                            if index == last:"),
    ('C11', 'previous-ignores-overlap', DT + 'DT_In.py',
     "                            pstart, pend, psize = opt(0, first + "
     "overlap,\n                                                      sz, "
     "orphan, sequence)\n                            if index == first:",
     "                            pstart, pend, psize = opt(0, first,\n      "
     "                                                sz, orphan, sequence)"
     "\n                            if index == first:"),
    ('C12', 'len-in-renderwb', DT + 'DT_In.py',
     "        try:\n            # opt() leaves an explicit end beyond the "
     "sequence unclipped\n            sequence[end - 1]\n        except "
     "IndexError:\n            end = len(sequence)",
     "        end = min(end, len(sequence))"),
    ('C12', 'fromiter-drains', DT + 'DT_Util.py',
     "        while not self.finished and idx >= len(self.data):",
     "        while not self.finished:"),
    ('C13', 'sort-descending', DT + 'DT_In.py',
     "            s.sort(key=itemgetter(0))", "            s.sort(key="
     "itemgetter(0), reverse=True)\n            s.reverse()"),
    ('C13', 'sort-in-place', DT + 'DT_In.py',
     "        sequence = []\n        for k, client in s:\n            "
     "sequence.append(client)\n        return sequence",
     "        out = []\n        for k, client in s:\n            "
     "out.append(client)\n        try:\n            sequence[:] = out\n      "
     "  except TypeError:\n            pass\n        return out"),
    ('C13', 'desc-ignored-for-second-key', DT + 'DT_In.py',
     "            if n:\n                return n * multiplier",
     "            if n:\n                return n * (multiplier if i == 0 "
     "else 1)"),
    ('C14', 'match_base-not-recursive', DT + 'DT_Try.py',
     "            if base.__name__ == name or self.match_base(base, name):",
     "            if base.__name__ == name:"),
    ('C14', 'else-runs-after-handler', DT + 'DT_Try.py',
     "                md._push(InstanceDict(ns, md))\n                return "
     "render_blocks(handler, md, encoding=self.encoding)",
     "                md._push(InstanceDict(ns, md))\n                r = "
     "render_blocks(handler, md, encoding=self.encoding)\n                if "
     "self.elseBlock is not None:\n                    r = r + "
     "render_blocks(self.elseBlock, md,\n                                    "
     "      encoding=self.encoding)\n                return r"),
    ('C14', 'return-caught-by-except', DT + 'DT_Try.py',
     "        except DTReturn:\n            raise\n        except Exception:",
     "        except Exception:"),
    ('C14', 'raise-uses-tag-name-as-message', DT + 'DT_Raise.py',
     "        t, v = upgradeException(t, v)\n        raise t(v)",
     "        t, v = upgradeException(t, v)\n        raise t(self.__name__)"),
    ('C15', 'modifier-order', DT + 'DT_Var.py',
     "    lower, upper, capitalize, spacify,", "    upper, lower, "
     "capitalize, spacify,"),
    ('C15', 'truncate-half', DT + 'DT_Var.py',
     "                if l_ > size / 2:", "                if l_ >= size / "
     "2:"),
    ('C15', 'null-treats-zero-as-null', DT + 'DT_Var.py',
     "        if 'null' in args and not val and val != 0:\n            # "
     "check for null",
     "        if 'null' in args and not val:\n            # check for null"),
    ('C15', 'sql_quote-forgets-ctrl-z', DT + 'DT_Var.py',
     "    for char in ('\\x00', '\\x1a', '\\r'):", "    for char in ('\\x00', "
     "'\\r'):"),
    ('C16', 'sample-variance-divisor', DT + 'DT_InSV.py',
     "                sumsq = sumsq * n / (n - 1)", "                sumsq = "
     "sumsq * n / n"),
    ('C16', 'median-wrong-middle', DT + 'DT_InSV.py',
     "                    data['median-%s' % name] = values[count // 2]",
     "                    data['median-%s' % name] = values[count // 2 - 1]"),
    ('C16', 'min-max-swapped', DT + 'DT_InSV.py',
     "            data['min-%s' % name] = min\n            data['max-%s' % "
     "name] = max",
     "            data['min-%s' % name] = max\n            data['max-%s' % "
     "name] = min"),
    ('C17', 'getstate-keeps-compiled', DT + 'DT_String.py',
     "            if k[:3] in _special:\n                continue",
     "            if k[:3] in ('_p_',):\n                continue"),
    ('C17', 'munge-does-not-cook', DT + 'DT_String.py',
     "        if source_string is not None:\n            self.raw = "
     "source_string\n        self.cook()",
     "        if source_string is not None:\n            self.raw = "
     "source_string"),
    ('C17', 'reverse-in-place', DT + 'DT_In.py',
     "        s = list(sequence)\n        s.reverse()\n        return s",
     "        s = sequence if isinstance(sequence, list) else "
     "list(sequence)\n        s.reverse()\n        return s"),
    ('C18', 'cooked-before-blocks', DT + 'DT_String.py',
     "            self._v_blocks = self.parse(self.read())\n            "
     "self._v_cooked = None",
     "            self._v_cooked = None\n            self._v_blocks = "
     "self.parse(self.read())"),
    ('C18', 'sort-spec-on-shared-tag', DT + 'DT_In.py',
     "            sequence = self.sort_sequence(sequence, md,\n              "
     "                            self.sort_expr.eval(md))\n        elif "
     "self.sort is not None:\n            sequence = "
     "self.sort_sequence(sequence, md)\n\n        if self.reverse_expr is "
     "not None and self.reverse_expr.eval(md):\n            sequence = "
     "self.reverse_sequence(sequence)\n        elif self.reverse is not "
     "None:\n            sequence = self.reverse_sequence(sequence)\n\n      "
     "  prefix = self.args.get('prefix')",
     "            self.sort = self.sort_expr.eval(md)\n            sequence "
     "= self.sort_sequence(sequence, md)\n        elif self.sort is not "
     "None:\n            sequence = self.sort_sequence(sequence, md)\n\n      "
     "  if self.reverse_expr is not None and self.reverse_expr.eval(md):\n   "
     "         sequence = self.reverse_sequence(sequence)\n        elif "
     "self.reverse is not None:\n            sequence = "
     "self.reverse_sequence(sequence)\n\n        prefix = "
     "self.args.get('prefix')"),
    ('C19', 'join-always-latin1', DT + '_DocumentTemplate.py',
     "                rendered[i] = rendered[i].decode(encoding)",
     "                rendered[i] = rendered[i].decode('latin-1')"),
    ('C19', 'in-forgets-encoding', DT + 'DT_In.py',
     "            result = join_unicode(result, encoding=self.encoding)\n\n  "
     "      finally:\n            if cache:\n                pop()\n         "
     "   pop()\n\n        return result\n\n    def sort_sequence",
     "            result = join_unicode(result)\n\n        finally:\n        "
     "    if cache:\n                pop()\n            pop()\n\n        "
     "return result\n\n    def sort_sequence"),
    ('C19', 'exception-str-uses-str', DT + 'ustr.py',
     "            return ustr(exc.args[0])", "            return "
     "str(exc)"),
    ('C20', 'chunk-56', 'TreeDisplay/TreeTag.py',
     "    l_ = len(state)\n\n    if l_ > 57:\n        states = []\n        "
     "for i in range(0, l_, 57):\n            states.append(b2a_base64("
     "state[i:i + 57])[:-1])\n        state = b''.join(states)\n    else:\n  "
     "      state = b2a_base64(state)[:-1]\n\n    l_ = state.find(b'=')\n    "
     "if l_ >= 0:\n        state = state[:l_]\n\n    state = "
     "state.translate(tplus)\n    state = state.decode('ascii')",
     "    l_ = len(state)\n\n    if l_ > 57:\n        states = []\n        "
     "for i in range(0, l_, 56):\n            states.append(b2a_base64("
     "state[i:i + 56])[:-1])\n        state = b''.join(states)\n    else:\n  "
     "      state = b2a_base64(state)[:-1]\n\n    l_ = state.find(b'=')\n    "
     "if l_ >= 0:\n        state = state[:l_]\n\n    state = "
     "state.translate(tplus)\n    state = state.decode('ascii')"),
    ('C20', 'decode-threshold-77', 'TreeDisplay/TreeTag.py',
     "    if l_ > 76:\n        states = []", "    if l_ > 77:\n        states "
     "= []"),
    ('C20', 'collapse-keeps-node', 'TreeDisplay/TreeTag.py',
     "            if not diff and not expand:\n                del s[loc]",
     "            if not diff and not expand:\n                s[loc][1:] = "
     "[]"),
    ('C20', 'plus-minus-swapped', 'TreeDisplay/TreeTag.py',
     "    state = state.translate(tminus)\n    l_ = len(state)",
     "    state = state.translate(tplus)\n    l_ = len(state)"),
]


def run(cmd, env=None, cwd=None, timeout=1800):
    e = dict(os.environ, PYTHONDONTWRITEBYTECODE='1')
    if env:
        e.update(env)
    p = subprocess.run(cmd, shell=True, cwd=cwd, env=e, timeout=timeout,
                       stdout=subprocess.PIPE, stderr=subprocess.STDOUT,
                       text=True)
    return p.returncode, p.stdout


def main(argv):
    with_tests = '--tests' in argv
    ids = [a for a in argv if not a.startswith('--')]
    rows = []
    for prop, label, rel, old, new in M:
        if ids and prop not in ids:
            continue
        if new is None:
            continue
        src = open(os.path.join('/repo/src', rel)).read()
        if src.count(old) != 1:
            rows.append((prop, label, 'not-applicable (source changed: %d '
                         'matches)' % src.count(old), ''))
            print(rows[-1], flush=True)
            continue
        work = tempfile.mkdtemp(prefix='mutant_')
        try:
            shutil.copytree('/repo/src', os.path.join(work, 'src'),
                            ignore=shutil.ignore_patterns('__pycache__'))
            with open(os.path.join(work, 'src', rel), 'w') as f:
                f.write(src.replace(old, new))
            tests = ''
            if with_tests:
                shutil.copy('/repo/setup.cfg', work) if os.path.exists(
                    '/repo/setup.cfg') else None
                rc, out = run('%s -m pytest -q -p no:cacheprovider src 2>&1 '
                              '| tail -1' % PY, cwd=work,
                              env={'PYTHONPATH': work + '/src'})
                tests = out.strip()
            t0 = time.time()
            rc, out = run('%s run.py %s quick' % (PY, prop), cwd=ROOT,
                          env={'VERIF_REPO_SRC': work + '/src',
                               'VERIF_EVIDENCE_DIR': work + '/ev'})
            verdict = {0: 'SURVIVED', 1: 'killed'}.get(rc, 'harness-error')
            b = [l.strip() for l in out.splitlines() if 'bucket:' in l][:2]
            rows.append((prop, label, '%s (%.0fs)' % (verdict,
                                                      time.time() - t0),
                         '; '.join(b) + ((' | tests: ' + tests)
                                         if tests else '')))
            print(rows[-1], flush=True)
            if rc == 2:
                print(out[-800:])
        finally:
            shutil.rmtree(work, ignore_errors=True)
    with open(os.path.join(ROOT, 'selftest', 'RESULTS.md'), 'w') as f:
        f.write('# Mutant self-test (quick tier)\n\n| property | mutant | '
                'verdict | first buckets |\n|---|---|---|---|\n')
        for r in rows:
            f.write('| %s | %s | %s | %s |\n' % tuple(
                str(x).replace('|', '\\|') for x in r))
    survived = [r for r in rows if 'SURVIVED' in r[2]]
    print('%d mutants, %d survived' % (len(rows), len(survived)))
    return 1 if survived else 0


if __name__ == '__main__':
    sys.exit(main(sys.argv[1:]))
