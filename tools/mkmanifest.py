#!/venv/bin/python
"""Regenerate MANIFEST.json from the table below (kept valid at all times:
a property is claimed only when checks/cNN.py exists)."""
import json
import os

ROOT = os.path.dirname(os.path.dirname(os.path.abspath(__file__)))

T = {
    'C01': ('Hypothesis-generated abstract templates printed in 3 syntaxes '
            'vs reference interpreter; literal-preservation + concatenation '
            'law; enumerated tag-free soups and near-miss tags (identity '
            'oracle)',
            'reference interpreter (vf/model.py) and reference lexer are '
            'trusted; literal alphabet is the near-tag alphabet of DESIGN §3'),
    'C02': ('exhaustive 63-subset source-precedence enumeration + '
            'Hypothesis-generated scoping programs vs reference interpreter',
            'reference interpreter trusted; depth <= 4'),
    'C03': ('exhaustive enumeration of all code points x insertion forms + '
            'Hypothesis strings, oracle html.escape / html.unescape',
            'Python html.escape is the definition of "standard HTML escaping '
            '(with quotes)"'),
    'C04': ('exhaustive enumeration of the 4096 modifier subsets x forms x '
            'tainted carriers + formats, and of the stage product fmt= x '
            'C-format x modifier subsets; non-interference oracle on "<"',
            'tainted carrier strings as in DESIGN C04; literal text and etc '
            'strings contain no "<"'),
    'C05': ('channel catalogue x guard policies (enumerated) + Hypothesis-'
            'generated compositions of the reading channels over an object '
            'graph under random refusal policies; value non-interference '
            'oracle (two renders differing only in refused data)',
            'guards supplied by an HTML subclass (documented extension '
            'point); channels are those named in the statement'),
    'C06': ('Hypothesis tag soup, exhaustive single mutations / truncations '
            'of valid templates, constructed-invalid families, pumping with a '
            'CPU-time guard; atheris fuzzing in thorough',
            'sources <= 4KB; CPU budget 5s per case as super-polynomial '
            'detector'),
    'C07': ('Hypothesis abstract templates printed with independent styles in '
            '3 syntaxes; structural normal form of the compiled program and '
            'render outcomes must agree; enumerated invalid sources must '
            'fail with the same class, message and line',
            'printer obeys each syntax\'s documented expressibility limits'),
    'C08': ('fault injection at every namespace-value invocation point of '
            'generated programs, and self-rendering templates run into the '
            'interpreter\'s recursion limit from inside every block; stack '
            'identity oracle',
            'faults are exceptions / dtml-return raised by namespace values, '
            'and the RecursionError of the interpreter at eight alignments'),
    'C09': ('exhaustive truth-table enumeration of condition chains + '
            'Hypothesis nestings vs reference interpreter with call log',
            'reference interpreter trusted'),
    'C10': ('Hypothesis sequences x option combinations; body dumps every '
            'documented sequence variable; independent per-element model',
            'letters only for index < 26, roman via independent routine'),
    'C11': ('exhaustive enumeration of the (length,start,end,size,orphan,'
            'overlap) lattice + walks + Hypothesis larger values vs '
            'independent window model',
            'see ASSUMPTIONS in checks/c11.py (size<1 and end-only windows '
            'are only checked relationally)'),
    'C12': ('exhaustive C11 lattice over counting iterators / lazy sequences '
            '(plus tag variants, refusing item guards, early exits); '
            'pull-count oracle',
            'bound = end shown + size + orphan as stated'),
    'C13': ('Hypothesis lists with duplicate / None / missing keys x sort '
            'specs; ordered-stable-permutation predicate',
            'keys inside one list mutually comparable'),
    'C14': ('Hypothesis try/except/else/finally/raise/return programs vs '
            'reference interpreter with Python exception semantics, on a '
            'compiled template with a render history and re-entered while '
            'it renders',
            'reference interpreter trusted'),
    'C15': ('exhaustive modifier-subset sweep + Hypothesis values/options; '
            'order-independence metamorphic relation + independent pipeline '
            'model + round-trip laws',
            'single-modifier reference functions written from the docs'),
    'C16': ('Hypothesis value lists vs closed-form recomputation with stated '
            'tolerances',
            'mean within 1e-9*(1+mean square); variances within 64 ulp of '
            '(1+mean square), the rounding a one-pass formula can incur'),
    'C17': ('Hypothesis RuleBasedStateMachine over render / pickle / deepcopy '
            '/ munge / cook histories; fresh-template differential oracle',
            'fresh template of the same source is the reference'),
    'C18': ('deterministic line-level thread scheduler: systematic 1- and '
            '2-preemption schedules (all lines; block-tag lines; call path of '
            'a warm template), 3-preemption compile races + Hypothesis PCT '
            'schedules, package '
            'global state reset before every schedule; sequential '
            'specification oracle',
            'preemption at Python line granularity inside the package'),
    'C19': ('Hypothesis texts x encodings x insertion forms; bytes-vs-text '
            'metamorphic relation; ustr table',
            'only the insertion forms named by the statement'),
    'C20': ('exhaustive enumeration of tree shapes x click histories x tag '
            'options + Hypothesis state machine; set-of-expanded-paths '
            'model; codec round trip up to 300 KB states',
            'harness plays the browser (parses links, feeds cookie back)'),
}


def main():
    checks, na = [], []
    for pid in sorted(T):
        tech, note = T[pid]
        if os.path.exists(os.path.join(ROOT, 'checks', pid.lower() + '.py')):
            checks.append(dict(
                property_id=pid,
                quick_cmd='/venv/bin/python run.py %s quick' % pid,
                thorough_cmd='/venv/bin/python run.py %s thorough' % pid,
                evidence_file='evidence/%s.json' % pid,
                replay_cmd_template='/venv/bin/python run.py %s --replay '
                                    '{path}' % pid,
                engine='vf',
                level_claimed=dict(
                    category='exploration',
                    text='Generated-input search against an explicit oracle: '
                         '%s. Held on everything generated / enumerated; '
                         'absence beyond the explored domain is not '
                         'established.' % tech,
                    design_ref='DESIGN.md §4 %s' % pid),
                level_note=note,
                technique='property-based testing: ' + tech))
        else:
            na.append(dict(property_id=pid,
                           reason='check not built yet (planned, see '
                                  'DESIGN.md §4 %s); not claimed until '
                                  'checks/%s.py exists' % (pid, pid.lower())))
    m = dict(
        version=1,
        setup_cmd='/venv/bin/python tools/setup.py',
        hooks=dict(guard='DOCUMENTTEMPLATE_VERIF',
                   enable='none needed: no instrumentation hook exists in '
                          '/repo; checks import /repo/src directly',
                   baseline_off_cmd='cd /repo && /venv/bin/python -m pytest '
                                    '-ra -q -p no:cacheprovider --timeout=900 '
                                    '--continue-on-collection-errors',
                   source_commits=[], add_only=True),
        engines=[dict(name='vf', path='vf/', serves_properties=[
            c['property_id'] for c in checks],
            kind_free_text='Hypothesis / exhaustive enumeration / fault and '
                           'schedule injection harness with reference '
                           'oracles; run.py <ID> quick|thorough')],
        checks=checks,
        notes='All checks: exit 0 held / exit 1 + VIOLATION line / exit 2 '
              'harness error. known_findings.json lists recorded and fixed '
              'defects.',
        not_applicable=na)
    with open(os.path.join(ROOT, 'MANIFEST.json'), 'w') as f:
        json.dump(m, f, indent=1)
        f.write('\n')
    print('claimed:', [c['property_id'] for c in checks])


if __name__ == '__main__':
    main()
