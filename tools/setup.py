#!/venv/bin/python
"""MANIFEST.setup_cmd: make sure the offline dependencies are importable.
Everything comes from /opt/veriftools/wheels; nothing is fetched."""
import importlib.util
import os
import subprocess
import sys

ROOT = os.path.dirname(os.path.dirname(os.path.abspath(__file__)))
WHEELS = '/opt/veriftools/wheels'
PIP = [sys.executable, '-m', 'pip', 'install', '--no-index', '--find-links',
       WHEELS, '--quiet', '--disable-pip-version-check']


def main():
    if importlib.util.find_spec('hypothesis') is None:
        subprocess.check_call(PIP + ['hypothesis'])
    deps = os.path.join(ROOT, '.deps')
    sys.path.append(deps)
    if importlib.util.find_spec('atheris') is None:
        try:
            subprocess.check_call(PIP + ['--target', deps, 'atheris'])
        except Exception as e:   # optional: C06 thorough records its absence
            print('atheris not installed (%s); C06 thorough will rely on the '
                  'Hypothesis generators only' % e)
    import hypothesis
    print('setup ok: hypothesis', hypothesis.__version__)


if __name__ == '__main__':
    main()
