#!/venv/bin/python
"""Prepare a scratch worktree and print the prompt for one seeding sub-agent.

  seedprompt.py <CNN> <LETTER>     creates /tmp/seed/<CNN>/wt<LETTER> (worktree
                                   of /repo HEAD) and /tmp/seed/<CNN>/SEED/<LETTER>/
                                   and prints the prompt text

The agent gets the property text, the one-line descriptions of the changes
already taken for the property (so that it does not repeat them) and its own
worktree - nothing else from /verif.
"""
import json
import os
import subprocess
import sys

ROOT = os.path.dirname(os.path.dirname(os.path.abspath(__file__)))


def prop(pid):
    for line in open(os.path.join(ROOT, 'properties.jsonl')):
        p = json.loads(line)
        if p['id'] == pid:
            return p
    raise SystemExit('no such property ' + pid)


def taken(pid):
    out = []
    base = os.path.join(ROOT, 'seeded')
    for n in sorted(os.listdir(base)):
        if not n.startswith(pid + '-'):
            continue
        mp = os.path.join(base, n, 'meta.json')
        if not os.path.exists(mp):
            continue
        m = json.load(open(mp))
        first = (m.get('needs_to_manifest') or '').strip().splitlines()
        first = [l for l in first if l.strip()]
        if first:
            out.append('- ' + first[0].lstrip('#- ').strip()[:260])
    return out


def main(pid, letter):
    p = prop(pid)
    wt = '/tmp/seed/%s/wt%s' % (pid, letter)
    out = '/tmp/seed/%s/SEED/%s' % (pid, letter)
    os.makedirs(out, exist_ok=True)
    if not os.path.exists(wt):
        subprocess.check_call(['git', '-C', '/repo', 'worktree', 'add', '-q',
                               '--detach', wt, 'HEAD'])
    text = PROMPT.format(
        pid=pid, title=p['title'], statement=p['statement'],
        quant=p['quantifier']['text'], wt=wt, out=out,
        files=', '.join(p['anchors']['files']),
        taken='\n'.join(taken(pid)) or '(none)')
    print(text)


PROMPT = '''You are helping to evaluate a verification effort for the Python package zopefoundation/DocumentTemplate (the DTML template engine of Zope). You have your own scratch git worktree of the package at {wt} (source under {wt}/src/DocumentTemplate and {wt}/src/TreeDisplay). Work ONLY inside {wt} and {out}; do not read or touch /repo, /verif or any other directory of this machine apart from the Python installation. Run Python as `cd {wt} && PYTHONPATH={wt}/src PYTHONDONTWRITEBYTECODE=1 /venv/bin/python ...` so that your worktree's sources are the ones imported (check once with `import DocumentTemplate; print(DocumentTemplate.__file__)`). The test suite is `cd {wt} && PYTHONPATH={wt}/src /venv/bin/python -m pytest -q -p no:cacheprovider` (94 tests).

Here is a semantic property the package is supposed to have:

  Property {pid}: {title}
  Statement: {statement}
  Quantified: {quant}
  (Code mostly involved: {files})

YOUR TASK: write ONE realistic change to the package's source (the kind of thing a maintainer could plausibly commit as an optimisation, refactoring, clean-up, small feature or "bug fix") that BREAKS this property while the package still imports and ALL 94 existing tests still pass. The change must need something specific to manifest - a particular multi-step sequence of operations, an unusual but legitimate input, a particular option combination, state carried from an earlier rendering, two cooperating sites that each look fine alone, a particular interleaving - NOT something any ordinary use would expose at once. The violating input must be legitimate use of the package within the property's stated domain (not garbage input, not monkey-patching, not private APIs). Do not touch the tests. Do not make the change depend on environment variables, time, randomness or a magic constant that no generator could ever hit (e.g. "if value == 'xyzzy123'"); it should look like honest code with an honest mistake.

Changes of the following kinds were already produced by others for this property - do something DIFFERENT in mechanism and in the input needed:
{taken}

Deliverables, in {out}/ :
  1. patch.diff  - `cd {wt} && git diff > {out}/patch.diff` (source files only, the change applied to the worktree's HEAD)
  2. demo.py     - a small stand-alone program (no pytest needed; it imports DocumentTemplate from PYTHONPATH) that exits 0 on the unchanged package and exits non-zero (assertion failure is fine) with your change applied, demonstrating the violation of the property statement as written (print what was expected and what was got)
  3. notes.md    - first line: `- Change: <file, function>: <one-sentence description>`; then what it violates, and exactly what is needed for it to manifest.

Before you finish, verify yourself: (a) with the change applied the 94 tests pass; (b) demo.py fails with the change; (c) save the change (`git diff > {out}/patch.diff`), undo it with `git apply -R {out}/patch.diff` (do NOT use `git stash`: the stash is shared by all worktrees of the repository and other people work in sibling worktrees) -> demo.py passes without the change; then re-apply it with `git apply {out}/patch.diff` so the worktree contains it, and make sure patch.diff is current. Keep the change small (typically < 60 changed lines). Report in your final message the one-line description and the verification results.'''

if __name__ == '__main__':
    main(sys.argv[1], sys.argv[2])
