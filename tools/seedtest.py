#!/venv/bin/python
"""Confirm a seeded change and run checks against it.

  seedtest.py import <CNN> <A|B> [--src /tmp/seed/CNN/SEED/A]
        confirm in a scratch worktree (tests pass, demo fails with / passes
        without the change) and store it as /verif/seeded/<CNN>-<X>/
  seedtest.py run <CNN>-<X> [check ids...] [--tier quick]
        git -C /repo apply the stored patch, run the checks, undo it.
"""
import json
import os
import shutil
import subprocess
import sys
import tempfile
import time

ROOT = os.path.dirname(os.path.dirname(os.path.abspath(__file__)))
PY = '/venv/bin/python'


def sh(cmd, cwd=None, env=None, timeout=3600):
    e = dict(os.environ)
    e['PYTHONDONTWRITEBYTECODE'] = '1'
    if env:
        e.update(env)
    p = subprocess.run(cmd, shell=True, cwd=cwd, env=e, timeout=timeout,
                       stdout=subprocess.PIPE, stderr=subprocess.STDOUT,
                       text=True)
    return p.returncode, p.stdout


def confirm(patch, demo):
    wt = tempfile.mkdtemp(prefix='seedwt_', dir='/tmp')
    os.rmdir(wt)
    res = {}
    try:
        rc, out = sh('git -C /repo worktree add -q --detach %s HEAD' % wt)
        assert rc == 0, out
        env = {'PYTHONPATH': wt + '/src'}
        rc, out = sh('%s %s' % (PY, demo), cwd=wt, env=env)
        res['demo_without'] = rc
        rc, out = sh('git apply %s' % patch, cwd=wt)
        if rc != 0:
            rc, out = sh('git apply --3way %s' % patch, cwd=wt)
        res['applies_on_head'] = (rc == 0)
        if rc != 0:
            res['apply_error'] = out[-500:]
            return res
        rc, out = sh('%s -m pytest -q -p no:cacheprovider 2>&1 | tail -1'
                     % PY, cwd=wt, env=env)
        res['tests_with'] = out.strip()
        rc, out = sh('%s %s' % (PY, demo), cwd=wt, env=env)
        res['demo_with'] = rc
        res['demo_output'] = out[-600:]
        rc, out = sh('git diff HEAD', cwd=wt)
        res['rebased_patch'] = out
    finally:
        sh('git -C /repo worktree remove --force %s' % wt)
        shutil.rmtree(wt, ignore_errors=True)
    return res


def cmd_import(prop, x, src=None):
    src = src or '/tmp/seed/%s/SEED/%s' % (prop, x)
    name = '%s-%s' % (prop, x)
    res = confirm(os.path.join(src, 'patch.diff'),
                  os.path.join(src, 'demo.py'))
    ok = (res.get('applies_on_head') and res.get('demo_without') == 0 and
          res.get('demo_with') not in (0, None) and
          '94 passed' in res.get('tests_with', ''))
    print(name, 'confirmed' if ok else 'NOT CONFIRMED',
          {k: v for k, v in res.items() if k not in ('rebased_patch',
                                                     'demo_output')})
    if not ok:
        print(res.get('demo_output', ''), res.get('apply_error', ''))
        return 1
    dst = os.path.join(ROOT, 'seeded', name)
    os.makedirs(dst, exist_ok=True)
    with open(os.path.join(dst, 'patch.diff'), 'w') as f:
        f.write(res['rebased_patch'])
    shutil.copy(os.path.join(src, 'demo.py'), os.path.join(dst, 'demo.py'))
    notes = ''
    if os.path.exists(os.path.join(src, 'notes.md')):
        shutil.copy(os.path.join(src, 'notes.md'),
                    os.path.join(dst, 'notes.md'))
        notes = open(os.path.join(src, 'notes.md')).read()
    meta = dict(
        id=name, property=prop, origin='independent sub-agent given only the '
        'property text and a scratch worktree',
        needs_to_manifest=notes.strip()[:1500],
        confirmed=dict(
            how='scratch worktree of /repo HEAD: pytest (94 tests) with the '
                'patch; demo.py with and without the patch',
            tests_with_patch=res['tests_with'],
            demo_exit_with_patch=res['demo_with'],
            demo_exit_without_patch=res['demo_without']),
        detected_by={})
    mp = os.path.join(dst, 'meta.json')
    if os.path.exists(mp):
        old = json.load(open(mp))
        meta['detected_by'] = old.get('detected_by', {})
    json.dump(meta, open(mp, 'w'), indent=1)
    return 0


def cmd_run(name, checks, tier='quick'):
    dst = os.path.join(ROOT, 'seeded', name)
    meta = json.load(open(os.path.join(dst, 'meta.json')))
    checks = checks or [meta['property']]
    rc, out = sh('git -C /repo status --porcelain')
    assert out.strip() == '', '/repo not clean: ' + out
    rc, out = sh('git -C /repo apply %s' % os.path.join(dst, 'patch.diff'))
    assert rc == 0, out
    try:
        for c in checks:
            t0 = time.time()
            rc, out = sh('%s run.py %s %s' % (PY, c, tier), cwd=ROOT,
                         env={'VERIF_EVIDENCE_DIR': '/tmp/seed_evidence'})
            lines = [l for l in out.splitlines()
                     if l.startswith(('VIOLATION', '  bucket', 'HARNESS'))]
            verdict = {0: 'missed', 1: 'DETECTED'}.get(rc, 'harness-error')
            print('%s vs %s %s: %s (%.0fs)' % (name, c, tier, verdict,
                                              time.time() - t0))
            for l in lines[:6]:
                print('   ', l[:200])
            if rc == 2:
                print(out[-1500:])
            meta['detected_by']['%s %s' % (c, tier)] = dict(
                verdict=verdict, buckets=[l.strip() for l in lines
                                          if 'bucket' in l][:5])
    finally:
        sh('git -C /repo checkout -- .')
        rc, out = sh('git -C /repo status --porcelain')
        assert out.strip() == '', out
    json.dump(meta, open(os.path.join(dst, 'meta.json'), 'w'), indent=1)
    # restore evidence written while the tree was modified
    return 0


def cmd_scratch(name, checks, tier='quick'):
    """Like run, but on a scratch worktree (VERIF_REPO_SRC), so that /repo
    is not touched and other work can go on meanwhile."""
    dst = os.path.join(ROOT, 'seeded', name)
    meta = json.load(open(os.path.join(dst, 'meta.json')))
    checks = checks or [meta['property']]
    wt = tempfile.mkdtemp(prefix='seedwt_', dir='/tmp')
    os.rmdir(wt)
    rc, out = sh('git -C /repo worktree add -q --detach %s HEAD' % wt)
    assert rc == 0, out
    try:
        rc, out = sh('git apply %s' % os.path.join(dst, 'patch.diff'), cwd=wt)
        if rc != 0:
            rc, out = sh('git apply --3way %s' % os.path.join(
                dst, 'patch.diff'), cwd=wt)
        if rc != 0:
            print('%s: patch does not apply on HEAD: %s' % (
                name, out.strip()[-200:]), flush=True)
            meta['detected_by']['apply'] = dict(
                verdict='patch-does-not-apply-on-HEAD', buckets=[])
            checks = []
        else:
            meta['detected_by'].pop('apply', None)
        for c in checks:
            t0 = time.time()
            rc, out = sh('%s run.py %s %s' % (PY, c, tier), cwd=ROOT,
                         env={'VERIF_EVIDENCE_DIR': '/tmp/seed_evidence',
                              'VERIF_REPO_SRC': wt + '/src'})
            lines = [l for l in out.splitlines()
                     if l.startswith(('VIOLATION', '  bucket', 'HARNESS'))]
            verdict = {0: 'missed', 1: 'DETECTED'}.get(rc, 'harness-error')
            print('%s vs %s %s: %s (%.0fs)' % (name, c, tier, verdict,
                                              time.time() - t0), flush=True)
            for l in lines[:4]:
                print('   ', l[:160], flush=True)
            key = '%s %s' % (c, tier)
            if os.environ.get('VERIF_SEED', '1') != '1':
                key += ' seed=' + os.environ['VERIF_SEED']
            meta['detected_by'][key] = dict(
                verdict=verdict, buckets=[l.strip() for l in lines
                                          if 'bucket' in l][:5])
    finally:
        sh('git -C /repo worktree remove --force %s' % wt)
        shutil.rmtree(wt, ignore_errors=True)
    json.dump(meta, open(os.path.join(dst, 'meta.json'), 'w'), indent=1)
    return 0


def cmd_matrix(tier='quick', extra=()):
    names = sorted(os.listdir(os.path.join(ROOT, 'seeded')))
    for n in names:
        if not os.path.isdir(os.path.join(ROOT, 'seeded', n)):
            continue
        cmd_scratch(n, list(extra) or None, tier)
    write_matrix()


def write_matrix():
    rows = []
    base = os.path.join(ROOT, 'seeded')
    for n in sorted(os.listdir(base)):
        mp = os.path.join(base, n, 'meta.json')
        if not os.path.exists(mp):
            continue
        m = json.load(open(mp))
        det = ['%s: %s' % (k, v['verdict'])
               for k, v in sorted(m['detected_by'].items())]
        first = (m.get('needs_to_manifest') or '').strip().splitlines()
        rows.append('| %s | %s | %s |' % (n, '; '.join(det),
                                          (first[0] if first else '')[:110]))
    with open(os.path.join(base, 'MATRIX.md'), 'w') as f:
        f.write('# Seeded changes and the checks that catch them\n\n'
                '| seed | checks run (tier): verdict | what it is |\n'
                '|---|---|---|\n' + '\n'.join(rows) + '\n')


if __name__ == '__main__':
    a = sys.argv[1:]
    if a[0] == 'import':
        src = None
        if '--src' in a:
            src = a[a.index('--src') + 1]
        sys.exit(cmd_import(a[1], a[2], src))
    elif a[0] == 'matrix':
        sys.exit(cmd_matrix(extra=a[1:]))
    elif a[0] == 'scratch':
        sys.exit(cmd_scratch(a[1], a[2:]))
    elif a[0] == 'run':
        tier = 'quick'
        if '--tier' in a:
            i = a.index('--tier')
            tier = a[i + 1]
            del a[i:i + 2]
        sys.exit(cmd_run(a[1], a[2:], tier))
