#!/usr/bin/env python3-vt
"""Validate MANIFEST.json and evidence/*.json against the schemas (uses the tooling venv's jsonschema)."""
import glob, json, sys
import jsonschema
ok = True
def v(path, schema):
    global ok
    try:
        jsonschema.validate(json.load(open(path)), json.load(open(schema)))
    except Exception as e:
        ok = False
        print('INVALID', path, str(e)[:300])
v('MANIFEST.json', '/root/.vp/MANIFEST.schema.json')
for p in sorted(glob.glob('evidence/*.json')):
    v(p, '/root/.vp/EVIDENCE.schema.json')
print('all valid' if ok else 'FAILED')
sys.exit(0 if ok else 1)
