"""Run a generated case against the implementation and against the reference
interpreter, and compare normalised outcomes."""
from vf import dtml, model
from vf.engine import CpuTimeout, cpu_limit

CPU_BUDGET = 10.0      # CPU-seconds per render; typical cost is < 5 ms
from vf.values import Obj, Probe, Rec, World, build_ns


def describe(v, depth=0):
    """World-independent description of a value (for comparing outcomes)."""
    if isinstance(v, (str, int, float, bool, bytes)) or v is None:
        return v
    if isinstance(v, Rec):
        return ['rec', v.rid]
    if isinstance(v, Probe):
        return ['probe', v.pid]
    if isinstance(v, Obj):
        return ['obj', sorted(k for k in v.__dict__)]
    if isinstance(v, (list, tuple)):
        if depth > 4:
            return ['...']
        return [type(v).__name__] + [describe(x, depth + 1) for x in v]
    if isinstance(v, dict):
        return ['dict', sorted(str(k) for k in v)]
    if isinstance(v, type):
        return ['class', v.__name__]
    if isinstance(v, BaseException):
        return ['exc', type(v).__name__, str(v)]
    return ['other', type(v).__name__]


def norm_outcome(o):
    kind = o[0]
    if kind == 'text':
        return ['text', o[1]]
    if kind == 'return':
        if isinstance(o[1], str):
            # a returned string cannot be told from rendered text by a caller
            return ['text', o[1]]
        return ['return', describe(o[1])]
    e = o[1]
    if e.args and isinstance(e.args[0], model.Unknown):
        return ['raise', type(e).__name__, e.args[0]]
    return ['raise', type(e).__name__, str(e)]


def make_template(source, syntax, ctor_map=None, ctor_kw=None, vars_=None,
                  encoding=None, name='<string>'):
    from DocumentTemplate import HTML, String
    cls = String if syntax == 'epfs' else HTML
    t = cls(source, ctor_map, name, encoding, **(ctor_kw or {}))
    if vars_:
        t.var(**vars_)
    return t


def run_impl(source, syntax, ns_spec, world_kw=None, call='kw',
             level=None, template=None, reenter=None):
    """Render source with the namespace built from ns_spec.
    call: 'kw' (values as keyword arguments), 'mapping', or 'sub' (invoked as
    a sub-template on a harness-owned TemplateDict)."""
    from DocumentTemplate.DT_Return import DTReturn
    world = World(return_exc=DTReturn, **(world_kw or {}))
    ns = build_ns(ns_spec, world, 'impl')
    guard = cpu_limit(CPU_BUDGET)
    guard.__enter__()
    try:
        t = template or make_template(source, syntax)
        if reenter:
            # reenter = (names, ns_spec2): while one of these recorders is
            # called, the same compiled template is rendered once more, from
            # the top, in a namespace of its own (a recursive template)
            busy = []
            budget = [reenter[2] if len(reenter) > 2 else 10 ** 9]

            def nested():
                if busy or budget[0] <= 0:
                    return
                budget[0] -= 1
                busy.append(1)
                try:
                    w2 = World(return_exc=DTReturn)
                    t(**build_ns(reenter[1], w2, 'impl'))
                except Exception:
                    pass
                finally:
                    busy.pop()
            for name in reenter[0]:
                if isinstance(ns.get(name), Rec):
                    ns[name].pre = nested
        if call == 'kw':
            out = ('text', t(**ns))
        elif call == 'mapping':
            out = ('text', t(None, ns))
        else:
            from DocumentTemplate._DocumentTemplate import TemplateDict
            md = TemplateDict()
            md._push(ns)
            md.guarded_getattr = None
            md.guarded_getitem = None
            if level is not None:
                md.level = level
            before = (tuple(id(x) for x in md._data), md.level)
            try:
                out = ('text', t(None, md))
            finally:
                world.stack_before = before
                world.stack_after = (tuple(id(x) for x in md._data),
                                     md.level)
    except DTReturn as r:          # only when called with call='sub' inside
        out = ('return', r.v)
    except Exception as e:
        out = ('raise', e)
    except CpuTimeout:
        out = ('raise', TimeoutError('more than %s CPU-seconds' % CPU_BUDGET))
    finally:
        guard.__exit__(None, None, None)
    # a top-level call returns the value of dtml-return instead of text
    if out[0] == 'text' and not isinstance(out[1], str):
        out = ('return', out[1])
    return out, world, ns


def perturbed(ns_spec):
    """Another namespace of the same shape: truth values flipped, texts
    changed, some names missing.  Used to render a compiled template once
    before the rendering that is checked, so that anything a rendering
    leaves behind on the compiled objects shows."""
    def flip(v):
        if isinstance(v, bool):
            return not v
        if isinstance(v, str):
            return '' if v else 'p'
        if isinstance(v, (int, float)):
            return 0 if v else 1
        if v is None:
            return 'was-none'
        if isinstance(v, dict) and v.get('t') == 'rec':
            d = dict(v)
            d['ret'] = flip(v.get('ret'))
            d.pop('sets', None)
            return d
        return v
    out = {}
    for i, (k, v) in enumerate(sorted(ns_spec.items())):
        if i % 7 == 3 and not isinstance(v, dict):
            continue                      # this name is missing
        out[k] = flip(v)
    return out


def run_impl_twice(source, syntax, ns_spec, world_kw=None):
    """Like run_impl, but the template object has been rendered before with
    a perturbed namespace."""
    t = make_template(source, syntax)
    other = perturbed(ns_spec)
    run_impl(source, syntax, other, template=t)
    # ... and is rendered once more, from the top and with those other
    # values, while the checked rendering is under way (during the first two
    # calls of its recorders)
    recs = [k for k, v in ns_spec.items()
            if isinstance(v, dict) and v.get('t') == 'rec']
    return run_impl(source, syntax, ns_spec, world_kw, template=t,
                    reenter=(recs, other, 2))


def run_model(ast, ns_spec, world_kw=None, level=0, guard_level=200):
    world = World(return_exc=model.ModelReturn, **(world_kw or {}))
    ns = build_ns(ns_spec, world, 'model')
    interp = model.Interp(world, guard_level=guard_level)
    space = model.NS([('map', ns)], level=level)
    # a top-level call bumps the level like any template call
    space.level = level + 1
    out = interp.run(ast, space)
    space.level = level
    world.interp = interp
    return out, world, ns


def same_return(out_i, ns_i, out_m, ns_m):
    """dtml-return hands back that very object: when the model returns an
    object of its namespace, the implementation must return the object
    bound to the same name in its own namespace."""
    if out_i[0] != 'return' or out_m[0] != 'return':
        return True
    for name, mv in ns_m.items():
        if mv is out_m[1] and isinstance(mv, (list, dict, Obj, Rec)):
            return ns_i.get(name) is out_i[1]
    return True


def differential(ast, syntax, ns_spec, style=None, world_kw=None):
    """-> None or (kind, message)."""
    src, toks, used, repairs = dtml.sound_print(ast, syntax, style)
    out_m, w_m, ns_m = run_model(used, ns_spec, world_kw)
    out_i, w_i, ns_i = run_impl(src, syntax, ns_spec, world_kw)
    no_m, no_i = norm_outcome(out_m), norm_outcome(out_i)
    if no_m != no_i:
        return 'outcome', 'source %r\n model %r\n impl  %r' % (src, no_m,
                                                               no_i), src
    if w_m.log != w_i.log:
        return 'calllog', 'source %r\n model %r\n impl  %r' % (
            src, w_m.log, w_i.log), src
    if not same_return(out_i, ns_i, out_m, ns_m):
        return 'return-identity', 'source %r' % src, src
    return None


# ------------------------------------------------------------- six sources

SOURCE_ORDER = ['kw', 'vars', 'client', 'mapping', 'ctor_kw', 'ctor_map']


class EmptyObj(Obj):
    def __len__(self):
        return 0


class FalseObj(Obj):
    def __bool__(self):
        return False


def run_impl_sources(source, syntax, sources, world_kw=None):
    """sources: dict with optional keys kw / vars / mapping / ctor_kw /
    ctor_map (name -> VALUE spec) and client (list of attr dicts; a list of
    length 1 with 'as_tuple': False means a single client object)."""
    from DocumentTemplate.DT_Return import DTReturn
    from vf.values import build
    world = World(return_exc=DTReturn, **(world_kw or {}))

    def b(key):
        return {k: build(v, world, 'impl')
                for k, v in (sources.get(key) or {}).items()}
    guard = cpu_limit(CPU_BUDGET)
    guard.__enter__()
    try:
        t = make_template(source, syntax, ctor_map=b('ctor_map') or None,
                          ctor_kw=b('ctor_kw'), vars_=b('vars'))
        client = None
        ocls = Obj
        if sources.get('client_falsy'):
            # a client whose truth value is false (an empty folder-like
            # container) is still a client
            ocls = {'len': EmptyObj, 'bool': FalseObj}[
                sources['client_falsy']]
        objs = [ocls({k: build(v, world, 'impl') for k, v in attrs.items()})
                for attrs in sources.get('client') or []]
        if objs:
            client = tuple(objs) if sources.get('client_tuple', True) \
                else objs[0]
        mapping = b('mapping')
        if sources.get('mapping_class'):
            from vf.values import MAPPING_CLASSES
            mapping = MAPPING_CLASSES[sources['mapping_class']](mapping)
        out = ('text', t(client, mapping, **b('kw')))
    except Exception as e:
        out = ('raise', e)
    except CpuTimeout:
        out = ('raise', TimeoutError('cpu'))
    finally:
        guard.__exit__(None, None, None)
    if out[0] == 'text' and not isinstance(out[1], str):
        out = ('return', out[1])
    return out, world


def run_model_sources(ast, sources, world_kw=None):
    from vf.values import build
    world = World(return_exc=model.ModelReturn, **(world_kw or {}))

    def b(key):
        return {k: build(v, world, 'model')
                for k, v in (sources.get(key) or {}).items()}
    layers = []
    ctor = {k: v for k, v in b('ctor_map').items() if k[:1] != '_'}
    ctor.update(b('ctor_kw'))
    if ctor:
        layers.append(('map', ctor))
    mapping = b('mapping')
    if mapping:
        layers.append(('map', mapping))
    for attrs in sources.get('client') or []:
        layers.append(('inst', Obj({k: build(v, world, 'model')
                                    for k, v in attrs.items()})))
    v = b('vars')
    if v:
        layers.append(('map', v))
    kw = b('kw')
    if kw:
        layers.append(('map', kw))
    interp = model.Interp(world)
    space = model.NS(layers, level=1)
    out = interp.run(ast, space)
    world.interp = interp
    return out, world
