"""Reference interpreter for abstract DTML templates.

Written from the property statements and the DTML documentation (the module
docstrings of the tags); it shares no code with the implementation.  It
evaluates an AST (vf/dtml.py) over a namespace of values built by
vf/values.py in 'model' mode and yields

    ('text', str) | ('return', value) | ('raise', exception instance)

plus the world's invocation log and probe trace.
"""
import html
import re

from vf import dtml
from vf.values import ModelTemplate, Probe

SKIP_EOL = re.compile(r'[ \t]*\n')


class ModelReturn(Exception):
    def __init__(self, v):
        self.v = v


class Unspecified(Exception):
    """The statement / documentation does not fix the behaviour; the check
    must not assert anything about this case."""


class Unknown(str):
    """Exception message that the statement leaves open: compares equal to
    any text."""

    def __eq__(self, other):
        return isinstance(other, str)

    def __ne__(self, other):
        return not isinstance(other, str)

    __hash__ = str.__hash__


class Missing(KeyError):
    pass


# ------------------------------------------------------------- namespace

class NS:
    """The namespace: a stack of layers searched last-first."""

    def __init__(self, layers=None, level=0):
        self.layers = list(layers or [])
        self.level = level
        self.body_ids = 0

    def push(self, layer):
        self.layers.append(layer)

    def pop(self, n=1):
        del self.layers[len(self.layers) - n:]

    def snapshot(self):
        return (tuple(id(x[1]) for x in self.layers), self.level)

    def raw(self, name):
        """Value bound to name by the innermost layer defining it."""
        for kind, payload in reversed(self.layers):
            try:
                if kind == 'map':
                    return payload[name]
                if kind == 'inst':
                    return inst_lookup(payload, name)
                if kind == 'seq':
                    return payload.get(name)
            except KeyError:
                continue
        raise KeyError(name)

    def has(self, name):
        try:
            self.raw(name)
        except KeyError:
            return False
        return True

    def lookup(self, name, interp):
        """Lookup as done by a tag: callables are called, templates rendered
        with this namespace."""
        v = self.raw(name)
        return interp.autocall(v, self)


def inst_lookup(obj, name):
    if name[:1] == '_':
        if name == '__str__':
            return str(obj)
        raise KeyError(name)
    try:
        return getattr(obj, name)
    except AttributeError:
        raise KeyError(name)


def roman(n):
    out = ''
    for v, s in ((1000, 'M'), (900, 'CM'), (500, 'D'), (400, 'CD'),
                 (100, 'C'), (90, 'XC'), (50, 'L'), (40, 'XL'), (10, 'X'),
                 (9, 'IX'), (5, 'V'), (4, 'IV'), (1, 'I')):
        while n >= v:
            out += s
            n -= v
    return out


class SeqVars:
    """Documented dtml-in variables for the element at position index of
    items, when elements first..last (0-based, inclusive) are displayed."""

    FIXED = ('item', 'key', 'index', 'number', 'letter', 'Letter', 'roman',
             'Roman', 'even', 'odd', 'start', 'end', 'length')

    def __init__(self, items, first, last, mapping=False, prefix=None):
        self.items = items
        self.first = first
        self.last = last
        self.mapping = mapping
        self.prefix = prefix
        self.index = first

    def element(self, i):
        e = self.items[i]
        if type(e) is tuple and len(e) == 2:
            return e[1]
        return e

    def value(self, i, name):
        e = self.element(i)
        if self.mapping:
            return e[name]
        return getattr(e, name)

    def get(self, key):
        i = self.index
        if self.prefix and key.startswith(self.prefix + '_'):
            suffix = key[len(self.prefix) + 1:]
            if suffix in self.FIXED:
                return self.get('sequence-' + suffix)
            raise KeyError(key)
        if key == 'sequence-item':
            return self.element(i)
        if key == 'sequence-key':
            e = self.items[i]
            if type(e) is tuple and len(e) == 2:
                return e[0]
            raise Unspecified('sequence-key of a non-pair element')
        if key == 'sequence-index':
            return i
        if key == 'sequence-number':
            return i + 1
        if key == 'sequence-even':
            return i % 2 == 0
        if key == 'sequence-odd':
            return i % 2 == 1
        if key == 'sequence-letter':
            if i >= 26:
                raise Unspecified('letter beyond z')
            return 'abcdefghijklmnopqrstuvwxyz'[i]
        if key == 'sequence-Letter':
            if i >= 26:
                raise Unspecified('letter beyond Z')
            return 'ABCDEFGHIJKLMNOPQRSTUVWXYZ'[i]
        if key == 'sequence-Roman':
            return roman(i + 1)
        if key == 'sequence-roman':
            return roman(i + 1).lower()
        if key == 'sequence-start':
            return i == self.first
        if key == 'sequence-end':
            return i == self.last
        if key == 'sequence-length':
            return len(self.items)
        if key.startswith('sequence-var-'):
            try:
                return self.value(i, key[13:])
            except (AttributeError, KeyError, TypeError, IndexError):
                raise KeyError(key)
        if key.startswith('first-'):
            if i == self.first:
                return True
            try:
                return self.value(i, key[6:]) != self.value(i - 1, key[6:])
            except (AttributeError, KeyError, TypeError):
                raise Unspecified('first- of a missing value')
        if key.startswith('last-'):
            if i == self.last:
                return True
            try:
                return self.value(i, key[5:]) != self.value(i + 1, key[5:])
            except (AttributeError, KeyError, TypeError):
                raise Unspecified('last- of a missing value')
        if key in ('previous-sequence', 'next-sequence'):
            raise Unspecified('batch variables are checked by C11')
        if key.startswith(('sequence-', 'previous-', 'next-', 'total-',
                           'count-', 'min-', 'max-', 'mean-', 'median-',
                           'variance-', 'standard-deviation-')):
            raise Unspecified(key)
        raise KeyError(key)


def mstr(v):
    """String form used when a value is inserted (C19's ustr table)."""
    if isinstance(v, str):
        return v
    if isinstance(v, bytes):
        # next to other pieces a byte string is decoded with the template's
        # encoding (the generators use the default one)
        return v.decode('utf-8')
    if isinstance(v, BaseException):
        if not v.args:
            return ''
        if len(v.args) == 1:
            return mstr(v.args[0])
        return str(v.args)
    return str(v)


# ----------------------------------------------------------- interpreter

class Interp:

    def __init__(self, world, guard_level=200):
        self.world = world
        self.guard_level = guard_level
        self.body_seq = 0
        self.events = set()
        self.probe_groups = []      # parallel to world.probes: body instance

    # -- token stream with the end-of-line rule ---------------------------
    @staticmethod
    def effective(ast):
        """Deep copy of ast in which the literal text directly following a
        block's opening, continuation or closing tag has lost one leading
        run of blanks ending in a newline (the C01 rule)."""
        src, toks = dtml.print_ast(ast, 'dtml')
        return toks

    # -- values -----------------------------------------------------------
    def autocall(self, v, ns):
        if isinstance(v, Probe):
            self.probe_groups.append(self.cur_body)
            return v.__render_with_namespace__(ns)
        if isinstance(v, ModelTemplate):
            return self.call_template(v, ns)
        if isinstance(v, BaseException):
            # exception objects (error_value; HTTP exceptions, which happen
            # to be callable WSGI applications) are values, never called
            return v
        if callable(v):
            return v()
        return v

    def call_template(self, t, ns):
        """A template invoked by name from another template: sees the
        caller's namespace with its own defaults (and variables) on top."""
        pushed = 0
        level = ns.level
        if level > self.guard_level:
            raise SystemError('infinite recursion in document template')
        if t.defaults:
            ns.push(('map', t.defaults))
            pushed += 1
        ns.level = level + 1
        if t.vars:
            ns.push(('map', t.vars))
            pushed += 1
        try:
            try:
                return self.render(t.ast, ns)
            except ModelReturn as r:
                return r.v
        finally:
            ns.pop(pushed)
            ns.level = level

    def eval(self, e, ns):
        k = e['e']
        if k == 'name':
            try:
                return ns.raw(e['n'])
            except KeyError:
                raise NameError("name '%s' is not defined" % e['n'])
        if k == 'ns':
            return ns.lookup(e['n'], self)
        if k == 'has':
            return ns.has(e['n'])
        if k == 'lit':
            return e['v']
        if k == 'not':
            return not self.eval(e['a'], ns)
        if k == 'div0':
            return 1 / 0
        if k == 'callname':
            f = self.eval(dict(e='name', n=e['n']), ns)
            return f()
        if k == 'attr':
            return getattr(self.eval(e['a'], ns), e['n'])
        if k == 'item':
            return self.eval(e['a'], ns)[e['i']]
        if k == 'is':
            return self.eval(dict(e='name', n=e['a']), ns) is \
                self.eval(dict(e='name', n=e['b']), ns)
        if k == 'cat':
            return str(self.eval(e['a'], ns)) + str(self.eval(e['b'], ns))
        if k == 'eq':
            return self.eval(e['a'], ns) == self.eval(e['b'], ns)
        if k == 'gt':
            return self.eval(e['a'], ns) > self.eval(e['b'], ns)
        raise ValueError(k)

    def ref(self, ref, ns):
        """Value of a name / expr reference as a tag obtains it."""
        if ref['r'] == 'name':
            return ns.lookup(ref['n'], self)
        return self.eval(ref['e'], ns)

    # -- rendering ----------------------------------------------------------
    def run(self, ast, ns):
        """Top-level call -> outcome tuple."""
        try:
            return ('text', self.render(ast, ns))
        except ModelReturn as r:
            return ('return', r.v)
        except Unspecified:
            raise
        except Exception as e:
            return ('raise', e)

    def render(self, ast, ns):
        toks = prepare(ast)
        return self.body(toks, ns)

    def body(self, nodes, ns):
        self.body_seq += 1
        me = self.body_seq
        out = []
        for n in nodes:
            self.cur_body = me
            s = self.node(n, ns)
            self.cur_body = me
            if s:
                out.append(s)
        return ''.join(out)

    def node(self, n, ns):
        k = n['k']
        if k == 'text':
            return n['s']
        if k == 'var':
            return self.var(n, ns)
        if k == 'ent':
            mods = n['mods'] or ['html_quote']
            return self.var(dict(k='var', ref=dict(r='name', n=n['n']),
                                 opts=[[m, None] for m in mods]), ns)
        if k == 'call':
            self.cond(n['ref'], ns, cache=None)
            return ''
        if k == 'if':
            cache = {}
            ns.push(('map', cache))
            try:
                for c, b in zip(n['conds'], n['bodies']):
                    if self.cond(c, ns, cache):
                        return self.body(b, ns)
                if n.get('else') is not None:
                    return self.body(n['else'], ns)
                return ''
            finally:
                ns.pop()
        if k == 'unless':
            cache = {}
            ns.push(('map', cache))
            try:
                if not self.cond(n['ref'], ns, cache):
                    return self.body(n['body'], ns)
                return ''
            finally:
                ns.pop()
        if k == 'in':
            return self.in_(n, ns)
        if k == 'with':
            v = self.ref(n['ref'], ns)
            if n.get('mapping'):
                layer = ('map', v)
            else:
                if isinstance(v, tuple) and len(v) == 1:
                    v = v[0]
                layer = ('inst', v)
            target = ns
            if n.get('only'):
                target = NS()
            target.push(layer)
            try:
                return self.body(n['body'], target)
            finally:
                target.pop()
        if k == 'let':
            d = {}
            ns.push(('map', d))
            try:
                for name, ref in n['binds']:
                    d[name] = self.ref(ref, ns)
                return self.body(n['body'], ns)
            finally:
                ns.pop()
        if k == 'try':
            return self.try_(n, ns)
        if k == 'raise':
            return self.raise_(n, ns)
        if k == 'return':
            raise ModelReturn(self.ref(n['ref'], ns))
        if k == 'comment':
            return ''
        raise ValueError(k)

    def cond(self, ref, ns, cache):
        """Truth of a condition; a name that is not defined is false; a named
        condition's value is remembered for the conditional's bodies."""
        if ref['r'] == 'name':
            name = ref['n']
            if not ns.has(name):
                return False
            v = ns.lookup(name, self)
            if cache is not None:
                cache[name] = v
            return bool(v)
        return bool(self.eval(ref['e'], ns))

    def var(self, n, ns):
        opts = dict((o[0], o[1]) for o in n.get('opts', ()))
        ref = n['ref']
        if ref['r'] == 'name':
            if 'missing' in opts and not ns.has(ref['n']):
                return opts['missing']
            v = ns.lookup(ref['n'], self)
        else:
            v = self.eval(ref['e'], ns)
        if isinstance(v, BaseException) and v.args and \
                isinstance(v.args[0], Unknown):
            raise Unspecified('an unspecified exception message is shown')
        if 'null' in opts and not v and v != 0:
            return opts['null']
        s = mstr(v)
        known = {'missing', 'null', 'html_quote', 'upper', 'lower',
                 'capitalize', 'spacify'}
        for o in opts:
            if o not in known:
                raise Unspecified('var option %s is checked by C15' % o)
        if 'html_quote' in opts:
            s = html.escape(s, quote=True)
        if 'lower' in opts:
            s = s.lower()
        if 'upper' in opts:
            s = s.upper()
        if 'capitalize' in opts:
            s = s.capitalize()
        if 'spacify' in opts:
            s = s.replace('_', ' ')
        return s

    def in_(self, n, ns):
        opts = dict((o[0], o[1]) for o in n.get('opts', ()))
        for o in opts:
            if o not in ('mapping', 'no_push_item', 'prefix', 'size',
                         'start', 'end', 'orphan'):
                raise Unspecified('in option %s' % o)
        ref = n['ref']
        seq = self.ref(ref, ns)
        if isinstance(seq, str):
            raise ValueError('Strings are not allowed as input to the in tag.')
        if not isinstance(seq, (list, tuple)):
            seq = list(seq)
        if len(seq) == 0:
            if n.get('else') is not None:
                return self.body(n['else'], ns)
            return ''
        first, last = self.window(opts, len(seq))
        pushed = 0
        if ref['r'] == 'name':
            ns.push(('map', {ref['n']: seq}))
            pushed += 1
        sv = SeqVars(seq, first, last, mapping='mapping' in opts,
                     prefix=opts.get('prefix'))
        ns.push(('seq', sv))
        pushed += 1
        out = []
        try:
            for i in range(first, last + 1):
                sv.index = i
                e = sv.element(i)
                item_pushed = False
                if 'no_push_item' in opts:
                    pass
                elif 'mapping' in opts:
                    ns.push(('map', e))
                    item_pushed = True
                elif isinstance(e, (str, bytes)):
                    pass
                else:
                    ns.push(('inst', e))
                    item_pushed = True
                try:
                    out.append(self.body(n['body'], ns))
                finally:
                    if item_pushed:
                        ns.pop()
        finally:
            ns.pop(pushed)
        return ''.join(out)

    @staticmethod
    def window(opts, L):
        """0-based first / last displayed index of a (batched) dtml-in over
        L > 0 elements, for literal batch options, as C11 states it; the
        combinations the statement leaves open are Unspecified."""
        if not any(o in opts for o in ('size', 'start', 'end', 'orphan')):
            return 0, L - 1
        try:
            start = int(opts.get('start') or 0)
            end = int(opts.get('end') or 0)
            size = int(opts.get('size') or 0)
            orphan = int(opts['orphan'])
        except (KeyError, ValueError, TypeError):
            raise Unspecified('batch options without an explicit orphan')
        if 'overlap' in opts or start < 0 or end < 0 or orphan < 0:
            raise Unspecified('batch options')
        if start > 0:
            s = min(start, L)
            if end > 0:
                e = min(max(end, s), L)
            else:
                if size < 1:
                    raise Unspecified('default batch size')
                e = s + size - 1
                if e > L or L - e < orphan:
                    e = L
            return s - 1, e - 1
        if end > 0:
            raise Unspecified('window given by its end only')
        if size < 1:
            raise Unspecified('default batch size')
        e = size
        if e > L or L - e < orphan:
            e = L
        return 0, e - 1

    def try_(self, n, ns):
        if n.get('finally') is not None:
            result = ''
            try:
                result = self.body(n['body'], ns)
            finally:
                result = result + self.body(n['finally'], ns)
            return result
        try:
            result = self.body(n['body'], ns)
        except ModelReturn:
            raise
        except Unspecified:
            raise
        except Exception as exc:
            handler = None
            could = 0
            for h in n['handlers']:
                names = h['names']
                if not names or any(self.matches(type(exc), nm)
                                    for nm in names):
                    could += 1
                    if handler is None:
                        handler = h
            if handler is None:
                raise
            self.events.add('handled')
            if could >= 2:
                self.events.add('several-handlers-match')
            if handler['names'] and type(exc).__name__ not in \
                    handler['names']:
                self.events.add('matched-through-base-class')
            err = dict(error_type=type(exc).__name__, error_value=exc,
                       error_tb='(traceback)')
            ns.push(('map', err))
            try:
                return self.body(handler['body'], ns)
            finally:
                ns.pop()
        else:
            if n.get('else') is not None:
                return result + self.body(n['else'], ns)
            return result

    @staticmethod
    def matches(cls, name):
        return any(c.__name__ == name for c in cls.__mro__
                   if c is not object)

    def raise_(self, n, ns):
        import builtins
        ref = n['ref']
        if ref['r'] == 'type':
            t = getattr(builtins, ref['n'], None)
            if not (isinstance(t, type) and issubclass(t, Exception)):
                import zExceptions
                t = getattr(zExceptions, ref['n'], None)
                if not (isinstance(t, type) and issubclass(t, Exception)):
                    raise Unspecified('raise of an unknown type name')
        else:
            try:
                t = self.ref(ref, ns)
            except Exception:
                raise Unspecified('the exception class cannot be computed')
            if not (isinstance(t, type) and issubclass(t, Exception)):
                raise Unspecified('raise of a non-class')
        try:
            msg = self.body(n['body'], ns)
        except Unspecified:
            raise
        except Exception:
            # "raises the named or computed exception class with the rendered
            # body as its message": the class is stated unconditionally; what
            # the message is when the body cannot be rendered is not
            raise t(Unknown('?'))
        raise t(msg)


# ------------------------------------------------ end-of-line preparation

def prepare(ast):
    """Return a copy of the AST with the C01 end-of-line rule applied: the
    literal text directly following a block's opening, continuation or
    closing tag loses one run of blanks ending in a newline.  Done on a flat
    token view so that adjacent literals (eol strings, neighbouring text
    nodes) are merged first, as they are one piece of text in any source."""
    import copy
    ast = copy.deepcopy(ast)
    flat = []           # entries: ['lit', owner_dict, key] or ['tag', block?]

    def emit_eol(n, i):
        e = n.get('eol')
        if e and i < len(e) and e[i]:
            holder = {'k': 'text', 's': e[i]}
            flat.append(['lit', holder])
            return [holder]
        return []

    def walk(nodes):
        out = []
        for n in nodes:
            k = n['k']
            if k == 'text':
                flat.append(['lit', n])
                out.append(n)
                continue
            if k in ('var', 'ent', 'call', 'return'):
                flat.append(['tag', False])
                out.append(n)
                continue
            # block tags
            out.append(n)
            j = 0
            if k == 'if':
                for i in range(len(n['conds'])):
                    flat.append(['tag', True])
                    n['bodies'][i] = emit_eol(n, j) + walk(n['bodies'][i])
                    j += 1
                if n.get('else') is not None:
                    flat.append(['tag', True])
                    n['else'] = emit_eol(n, j) + walk(n['else'])
                    j += 1
            elif k == 'try':
                flat.append(['tag', True])
                n['body'] = emit_eol(n, j) + walk(n['body'])
                j += 1
                if n.get('finally') is not None:
                    flat.append(['tag', True])
                    n['finally'] = emit_eol(n, j) + walk(n['finally'])
                    j += 1
                else:
                    for h in n['handlers']:
                        flat.append(['tag', True])
                        h['body'] = emit_eol(n, j) + walk(h['body'])
                        j += 1
                    if n.get('else') is not None:
                        flat.append(['tag', True])
                        n['else'] = emit_eol(n, j) + walk(n['else'])
                        j += 1
            else:
                flat.append(['tag', True])
                n['body'] = emit_eol(n, j) + walk(n['body'])
                j += 1
                if k == 'in' and n.get('else') is not None:
                    flat.append(['tag', True])
                    n['else'] = emit_eol(n, j) + walk(n['else'])
                    j += 1
            flat.append(['tag', True])          # closing tag
            out.extend(emit_eol(n, j))
            n.pop('eol', None)
        return out

    top = walk(ast)
    # apply the rule on runs of adjacent literals following a block tag
    i = 0
    while i < len(flat):
        if flat[i][0] == 'tag' and flat[i][1]:
            j = i + 1
            run = []
            while j < len(flat) and flat[j][0] == 'lit':
                run.append(flat[j][1])
                j += 1
            if run:
                text = ''.join(h['s'] for h in run)
                m = SKIP_EOL.match(text)
                if m:
                    drop = m.end()
                    for h in run:
                        take = min(drop, len(h['s']))
                        h['s'] = h['s'][take:]
                        drop -= take
                        if not drop:
                            break
            i = j
        else:
            i += 1
    return top
