"""Module- and class-level mutable state of the package under test.

The lazy command table of DT_String.String, and any cache or memo a change
may add, live in module globals or class attributes.  Checks that compare
with "a fresh template" or explore schedules need to put that state back to
what it is right after import, otherwise "first use in the process" paths
run once per process and state leaks from one case into the next."""
import copy
import importlib
import pkgutil
import sys

_CONTAINERS = []      # the live container objects
_BASELINE = []        # their content right after import
_CACHED = []          # functions wrapped by functools.lru_cache / cache


def _discover():
    if _CONTAINERS:
        return
    for pkg in ('DocumentTemplate', 'TreeDisplay'):
        m = importlib.import_module(pkg)
        for info in pkgutil.iter_modules(m.__path__, pkg + '.'):
            if not info.ispkg:
                importlib.import_module(info.name)
    for name, mod in sorted(sys.modules.items()):
        if mod is None or '.tests' in name or \
                name.split('.')[0] not in ('DocumentTemplate', 'TreeDisplay'):
            continue
        holders = [mod] + [v for v in vars(mod).values()
                           if isinstance(v, type) and v.__module__ == name]
        for h in holders:
            for k, v in list(vars(h).items()):
                if k.startswith('__') or k == 'COOKLOCK':
                    continue
                if type(v) in (dict, list, set) and not any(
                        v is c for c in _CONTAINERS):
                    _CONTAINERS.append(v)
                    _BASELINE.append(copy.copy(v))
                f = getattr(v, '__func__', v)
                if callable(getattr(f, 'cache_clear', None)) and not any(
                        f is c for c in _CACHED):
                    _CACHED.append(f)


def capture():
    """Current content of every container."""
    _discover()
    return [copy.copy(c) for c in _CONTAINERS]


def restore(snapshot=None):
    """Put the containers back to a captured content (default: the content
    right after import)."""
    _discover()
    if snapshot is None:
        # memoised functions start empty (their content cannot be captured,
        # so a captured state is restored without it)
        for f in _CACHED:
            f.cache_clear()
    for c, snap in zip(_CONTAINERS, snapshot or _BASELINE):
        if c == snap:
            continue
        c.clear()
        (c.extend if isinstance(c, list) else c.update)(snap)
