"""Abstract DTML templates, the three concrete printers and the reference
lexers that keep generated sources sound.

AST nodes are plain dicts (JSON):

  {"k":"text","s":str}
  {"k":"var","ref":REF,"opts":[[name,value|None],...]}
  {"k":"ent","n":name,"mods":[m,...]}            &dtml-n; / &dtml.m1.m2-n;
  {"k":"call","ref":REF}
  {"k":"if","conds":[REF..],"bodies":[[..]..],"else":[..]|None}
  {"k":"unless","ref":REF,"body":[..]}
  {"k":"in","ref":REF,"opts":[[name,value|None]..],"body":[..],"else":[..]|None}
  {"k":"with","ref":REF,"mapping":bool,"only":bool,"body":[..]}
  {"k":"let","binds":[[name,REF]..],"body":[..]}
  {"k":"try","body":[..],"handlers":[{"names":[..],"body":[..]}..],
            "else":[..]|None,"finally":[..]|None}
  {"k":"raise","ref":REF|{"r":"type","n":name},"body":[..]}
  {"k":"return","ref":REF}
  {"k":"comment","body":[..]}

Block nodes may carry "eol": list of strings, one per tag of the block in
source order (open, continuations, close); each is literal text written
directly after that tag (normally '' or blanks+newline).

REF  = {"r":"name","n":x} | {"r":"expr","e":EXPR}
EXPR = {"e":"name","n":x}      x            (fetched uncalled)
     | {"e":"ns","n":x}        _['x']       (fetched like a tag would)
     | {"e":"has","n":x}       _.has_key('x')
     | {"e":"lit","v":scalar}  repr
     | {"e":"not","a":EXPR}    not (a)
     | {"e":"div0"}            1/0
     | {"e":"callname","n":x}  x()
     | {"e":"attr","a":EXPR,"n":a}   (a).attr
     | {"e":"item","a":EXPR,"i":scalar}   (a)[i]
     | {"e":"is","a":x,"b":y}  x is y
     | {"e":"cat","a":EXPR,"b":EXPR}   _.str(a) + _.str(b)
     | {"e":"eq","a":EXPR,"b":EXPR}    (a) == (b)
     | {"e":"gt","a":EXPR,"b":EXPR}    (a) > (b)
"""
import re

BLOCK_KINDS = ('if', 'unless', 'in', 'with', 'let', 'try', 'raise', 'comment',
               'tree')


# ----------------------------------------------------------- expressions

def expr_src(e):
    k = e['e']
    if k == 'name':
        return e['n']
    if k == 'ns':
        return "_['%s']" % e['n']
    if k == 'has':
        return "_.has_key('%s')" % e['n']
    if k == 'lit':
        v = e['v']
        if isinstance(v, str):
            assert '"' not in v and "'" not in v and '\\' not in v
            return "'%s'" % v
        return repr(v)
    if k == 'not':
        return 'not (%s)' % expr_src(e['a'])
    if k == 'div0':
        return '1/0'
    if k == 'callname':
        return '%s()' % e['n']
    if k == 'attr':
        return '(%s).%s' % (expr_src(e['a']), e['n'])
    if k == 'item':
        return '(%s)[%r]' % (expr_src(e['a']), e['i'])
    if k == 'is':
        return '%s is %s' % (e['a'], e['b'])
    if k == 'cat':
        return '_.str(%s) + _.str(%s)' % (expr_src(e['a']), expr_src(e['b']))
    if k == 'eq':
        return '(%s) == (%s)' % (expr_src(e['a']), expr_src(e['b']))
    if k == 'gt':
        return '(%s) > (%s)' % (expr_src(e['a']), expr_src(e['b']))
    if k == 'raw':
        # expression text written out by the generator (no model semantics)
        return e['s']
    raise ValueError(k)


# -------------------------------------------------------------- printing

# whitespace only: control characters such as \x01 are accepted between
# attributes but not directly after the tag name, and the statement speaks
# of "varying whitespace"
BLANKS = [' ', '  ', '\t', '\n', ' \n ', '\r\n', '\x0b', '\x0c', '\t ',
          ' \x1f']


class Style:
    """Concrete-syntax choices, drawn by the generator (a list of small
    ints consumed cyclically, so that it is plain data)."""

    def __init__(self, choices=None, plain=False):
        self.c = list(choices or [0])
        self.i = 0
        self.plain = plain

    def pick(self, n):
        if self.plain or n <= 1:
            return 0
        v = self.c[self.i % len(self.c)]
        self.i += 1
        return v % n

    def blank(self):
        if self.plain:
            return ' '
        return BLANKS[self.pick(len(BLANKS))]


UNQUOTED_OK = re.compile(r'[^\x00- ="]+\Z')


def _value(syntax, style, v, force_quote=False):
    """key=value spelling of an attribute value."""
    v = str(v)
    assert '"' not in v, v
    need = force_quote or not UNQUOTED_OK.match(v) or \
        (syntax == 'dtml' and '>' in v) or \
        (syntax == 'ssi' and '--' in v) or \
        (syntax == 'epfs' and ')' in v)
    if need or style.pick(3) == 0:
        return '"%s"' % v
    return v


def _ref_attrs(syntax, style, ref, attr='name', pin=None):
    """-> list of attribute strings for a name / expr reference.
    pin: None (style decides) or 'short' / 'long' spelling."""
    if ref['r'] == 'type':
        # dtml-raise by type name: bare or type=NAME
        long_ = pin == 'long' if pin else style.pick(3) == 0
        if long_:
            return ['type=%s' % _value(syntax, style, ref['n'])]
        return [ref['n']]
    if ref['r'] == 'name':
        long_ = pin == 'long' if pin else style.pick(3) == 0
        if long_:
            return ['%s=%s' % (attr, _value(syntax, style, ref['n']))]
        return [ref['n']]
    src = expr_src(ref['e'])
    assert '"' not in src, src
    if syntax == 'dtml':
        pass
    if syntax == 'ssi':
        assert '--' not in src
    long_ = pin == 'long' if pin else style.pick(3) == 0
    if long_:
        return ['expr="%s"' % src]
    return ['"%s"' % src]


def _opts(syntax, style, opts, shuffle=True):
    out = []
    opts = list(opts)
    if shuffle and len(opts) > 1 and not style.plain:
        k = style.pick(len(opts))
        opts = opts[k:] + opts[:k]
        if style.pick(2):
            opts.reverse()
    for name, val in opts:
        if val is None:
            out.append(name)
        else:
            out.append('%s=%s' % (name, _value(
                syntax, style, val, force_quote=name in ('sort_expr',
                                                         'reverse_expr',
                                                         'branches_expr'))))
    return out


def _join_attrs(syntax, style, attrs):
    """attrs: list of strings; first one is the name/expr shorthand or a
    key=value pair; valueless flags are never first."""
    s = ''
    for i, a in enumerate(attrs):
        b = style.blank()
        if syntax == 'epfs' and i == 0 and a.startswith('"'):
            # the EPFS tag regex admits a quoted string only after an
            # unquoted run, so the leading "expr" shorthand needs >= 2 blanks
            b = '  ' if style.plain else [' \n', '\t ', '  '][style.pick(3)]
        if syntax == 'ssi' and '-' in b:
            b = ' '
        s += b + a
    return s


def _tag(syntax, style, name, attrs, role):
    """role: 'open' | 'cont' | 'close' | 'inline'."""
    a = _join_attrs(syntax, style, attrs) if attrs else ''
    style.last_args = a.strip()
    # optional blank(s) before the closing delimiter, also on tags without
    # arguments (<dtml-else >, %(else )[, </dtml-if\n>)
    trail = '' if style.plain else ['', '', '', ' ', '\t', '\n', '  ',
                                     ' \n '][style.pick(8)]
    if syntax == 'dtml':
        if role == 'close':
            return '</dtml-%s%s%s>' % (name, a, trail)
        return '<dtml-%s%s%s>' % (name, a, trail)
    if syntax == 'ssi':
        tail = '' if style.plain else ['', ' ', '\t'][style.pick(3)]
        if role == 'close':
            pre = '/' if style.plain else ['/', 'end', ' /', 'END', 'End'][
                style.pick(5)]
            return '<!--#%s%s%s%s-->' % (pre, name, a, tail)
        return '<!--#%s%s%s-->' % (name, a, tail)
    if syntax == 'epfs':
        if role == 'close':
            return '%%(%s%s%s)]' % (name, a, trail)
        f = '[' if style.plain else '[!'[style.pick(2)]
        return '%%(%s%s%s)%s' % (name, a, trail, f)
    raise ValueError(syntax)


class Printer:
    """Prints an AST; records tokens: (kind, text, start, end) where kind is
    'lit' or 'tag'."""

    def __init__(self, syntax, style=None, pins=None):
        self.syntax = syntax
        self.style = style or Style(plain=True)
        self.tokens = []
        self.pos = 0
        self.pins = pins      # None or dict id(node)->'short'/'long'
        self.open_stack = []  # (block name, its start tag's argument text)

    def emit(self, kind, text, info=None):
        if text == '' and kind == 'lit':
            return
        self.tokens.append((kind, text, self.pos, self.pos + len(text), info))
        self.pos += len(text)
        if kind == 'tag' and info:
            if info[0] == 'open':
                self.open_stack.append((info[1], getattr(
                    self.style, 'last_args', '')))
            elif info[0] == 'close' and self.open_stack:
                self.open_stack.pop()

    def source(self):
        return ''.join(t[1] for t in self.tokens)

    def pin(self, node, slot=0):
        p = node.get('pin')
        if p is None:
            return None
        if isinstance(p, list):
            return p[slot % len(p)]
        return p

    def nodes(self, nodes):
        for n in nodes:
            self.node(n)

    def eol(self, node, i):
        e = node.get('eol')
        if e and i < len(e) and e[i]:
            self.emit('lit', e[i], ('eol',))

    def node(self, n):
        k = n['k']
        sx, st = self.syntax, self.style
        if k == 'text':
            self.emit('lit', n['s'])
        elif k == 'var':
            attrs = _ref_attrs(sx, st, n['ref'], pin=self.pin(n))
            opts = _opts(sx, st, n.get('opts', ()))
            if sx == 'epfs':
                cfmt = n.get('cfmt', 's')
                # (a variable called 'var' needs the long form: the short
                # one, %(var opts)s, is the var tag itself)
                # ... and any variable may be written in the long form
                long_form = st is not None and not getattr(
                    st, 'plain', False) and st.pick(4) == 0
                if n['ref']['r'] == 'name' and not attrs[0].startswith(
                        'name=') and attrs[0] != 'var' and not long_form:
                    self.emit('tag', '%%(%s%s)%s' % (
                        attrs[0], _join_attrs(sx, st, opts) if opts else '',
                        cfmt), ('inline', 'var'))
                else:
                    self.emit('tag', '%%(var%s)%s' % (
                        _join_attrs(sx, st, attrs + opts), cfmt),
                        ('inline', 'var'))
            else:
                self.emit('tag', _tag(sx, st, 'var', attrs + opts, 'inline'),
                          ('inline', 'var'))
        elif k == 'ent':
            if sx == 'epfs' or n.get('as_var'):
                mods = n['mods'] or ['html_quote']
                self.node(dict(k='var', ref=dict(r='name', n=n['n']),
                               opts=[[m, None] for m in mods], pin='short'))
            elif n['mods']:
                self.emit('tag', '&dtml.%s-%s;' % ('.'.join(n['mods']),
                                                    n['n']),
                          ('inline', 'ent'))
            else:
                self.emit('tag', '&dtml-%s;' % n['n'], ('inline', 'ent'))
        elif k in ('call', 'return'):
            attrs = _ref_attrs(sx, st, n['ref'], pin=self.pin(n))
            self.emit('tag', _tag(sx, st, k, attrs, 'inline'), ('inline', k))
        elif k == 'if':
            first = []
            for i, (c, b) in enumerate(zip(n['conds'], n['bodies'])):
                attrs = _ref_attrs(sx, st, c, pin=self.pin(n, i))
                if i == 0:
                    first = attrs
                self.emit('tag', _tag(sx, st, 'if' if i == 0 else 'elif',
                                      attrs, 'open' if i == 0 else 'cont'),
                          ('open' if i == 0 else 'cont', 'if'))
                self.eol(n, i)
                self.nodes(b)
            j = len(n['conds'])
            if n.get('else') is not None:
                self.emit('tag', _tag(sx, st, 'else', self.else_args(first),
                                      'cont'), ('cont', 'if'))
                self.eol(n, j)
                self.nodes(n['else'])
                j += 1
            self.close(n, 'if', j, first)
        elif k == 'unless':
            attrs = _ref_attrs(sx, st, n['ref'], pin=self.pin(n))
            name = 'unless'
            if n.get('as_else') and n['ref']['r'] == 'name':
                # the deprecated block form <dtml-else NAME>..</dtml-else>
                # (same meaning as unless); directly inside an if / in / try
                # it would be read as that block's else when its arguments
                # repeat (a blank-delimited prefix of) the start tag's
                attrs = [n['ref']['n']]
                name = 'else'
                if self.open_stack and self.open_stack[-1][0] in (
                        'if', 'in', 'try'):
                    sargs = self.open_stack[-1][1]
                    a = attrs[0]
                    if a == sargs or (sargs.startswith(a) and
                                      sargs[len(a):len(a) + 1] <= ' '):
                        name = 'unless'
            self.block1(n, name, attrs, n['body'])
        elif k == 'in':
            attrs = _ref_attrs(sx, st, n['ref'], pin=self.pin(n)) + \
                _opts(sx, st, n.get('opts', ()))
            self.emit('tag', _tag(sx, st, 'in', attrs, 'open'),
                      ('open', 'in'))
            self.eol(n, 0)
            self.nodes(n['body'])
            j = 1
            if n.get('else') is not None:
                self.emit('tag', _tag(sx, st, 'else', self.else_args(attrs),
                                      'cont'), ('cont', 'in'))
                self.eol(n, 1)
                self.nodes(n['else'])
                j = 2
            self.close(n, 'in', j, attrs)
        elif k == 'with':
            attrs = _ref_attrs(sx, st, n['ref'], pin=self.pin(n))
            flags = []
            if n.get('mapping'):
                flags.append(['mapping', None])
            if n.get('only'):
                flags.append(['only', None])
            self.block1(n, 'with', attrs + _opts(sx, st, flags), n['body'])
        elif k == 'let':
            attrs = []
            for name, ref in n['binds']:
                if ref['r'] == 'name':
                    attrs.append('%s=%s' % (name, ref['n']))
                else:
                    attrs.append('%s="%s"' % (name, expr_src(ref['e'])))
            self.block1(n, 'let', attrs, n['body'])
        elif k == 'try':
            self.emit('tag', _tag(sx, st, 'try', [], 'open'), ('open', 'try'))
            self.eol(n, 0)
            self.nodes(n['body'])
            j = 1
            if n.get('finally') is not None:
                self.emit('tag', _tag(sx, st, 'finally', [], 'cont'),
                          ('cont', 'try'))
                self.eol(n, j)
                self.nodes(n['finally'])
                j += 1
            else:
                for h in n['handlers']:
                    self.emit('tag', _tag(sx, st, 'except', list(h['names']),
                                          'cont'), ('cont', 'try'))
                    self.eol(n, j)
                    self.nodes(h['body'])
                    j += 1
                if n.get('else') is not None:
                    self.emit('tag', _tag(sx, st, 'else', [], 'cont'),
                              ('cont', 'try'))
                    self.eol(n, j)
                    self.nodes(n['else'])
                    j += 1
            self.close(n, 'try', j)
        elif k == 'raise':
            attrs = _ref_attrs(sx, st, n['ref'], attr='type',
                               pin=self.pin(n))
            self.block1(n, 'raise', attrs, n['body'])
        elif k == 'comment':
            self.block1(n, 'comment', [], n['body'])
        elif k == 'tree':
            attrs = _ref_attrs(sx, st, n['ref'], pin=self.pin(n)) \
                if n.get('ref') else []
            opts = _opts(sx, st, n.get('opts', ()), shuffle=bool(attrs))
            if not attrs and opts and '=' not in opts[0]:
                # a valueless flag may not come first
                opts.sort(key=lambda o: '=' not in o)
            self.block1(n, 'tree', attrs + opts, n['body'])
        elif k == 'rawtag':
            # escape hatch for checks that print a tag themselves
            self.emit('tag', n['src'][sx], ('inline', 'raw'))
        else:
            raise ValueError(k)

    def else_args(self, open_attrs):
        """The else tag may repeat the name the block was opened with."""
        if self.style.plain or not open_attrs:
            return []
        a = open_attrs[0]
        if self.style.pick(4) == 0 and re.match(r'[A-Za-z][A-Za-z0-9_]*\Z',
                                                 a):
            return [a]
        return []

    def block1(self, n, name, attrs, body):
        self.emit('tag', _tag(self.syntax, self.style, name, attrs, 'open'),
                  ('open', name))
        self.eol(n, 0)
        self.nodes(body)
        self.close(n, name, 1, attrs)

    def close(self, n, name, j, open_attrs=()):
        # optional end-tag arguments: none, a stray word, or the opening
        # tag's own arguments repeated
        attrs = []
        if not self.style.plain:
            c = self.style.pick(5)
            if c == 0:
                attrs = ['x']
            elif c == 1 and open_attrs:
                attrs = list(open_attrs)
        self.emit('tag', _tag(self.syntax, self.style, name, attrs, 'close'),
                  ('close', name))
        self.eol(n, j)


def print_ast(ast, syntax, style=None):
    p = Printer(syntax, style)
    p.nodes(ast)
    return p.source(), p.tokens


# ------------------------------------------------------ reference lexers

# entity references: &dtml-NAME; and &dtml.MOD1.MOD2-NAME; (possibly without
# modifiers: &dtml.-NAME;).  The dotted form without a "-NAME" part, or with
# an empty NAME, is not a tag of the language: it is literal text.
HTML_OPENERS = re.compile(
    r'<dtml-|</dtml-|<!--#|&dtml-[-a-zA-Z0-9_.]+;'
    r'|&dtml\.[a-zA-Z0-9_.]*-[-a-zA-Z0-9_.]+;')
EPFS_OPENER = re.compile(
    r'%\([a-zA-Z0-9_/.-]+([\x00- ]+[^)]*(\)[^)]*)*)?\)'
    r'([0-9]*\.?[0-9]*[a-zA-Z]|[\[\]!])')
EPFS_SIMPLE = re.compile(r'%\(')


def collisions(source, tokens, syntax):
    """Positions where literal text would be taken for (part of) a tag by a
    conservative reference lexer written from the grammar.  Returns the list
    of offending literal token indexes (empty = the source is sound)."""
    tagspans = [(t[2], t[3]) for t in tokens if t[0] == 'tag']

    def in_tag(pos):
        for a, b in tagspans:
            if a <= pos < b:
                return (a, b)
        return None

    bad = set()

    def blame(pos, end):
        for i, t in enumerate(tokens):
            if t[0] == 'lit' and t[2] < end and pos < t[3]:
                bad.add(i)

    if syntax in ('dtml', 'ssi'):
        for m in HTML_OPENERS.finditer(source):
            span = in_tag(m.start())
            if span is None:
                blame(m.start(), m.end())
            elif m.start() != span[0] and not _inside_quotes(
                    source, span, m.start()):
                blame(m.start(), m.end())
        # an entity scan '&dtml-' ... ';' may also start inside a literal and
        # end inside it; covered above.  '&dtml' at the very end of a parsed
        # region is handled by the implementation (was finding #1).
    else:
        for m in EPFS_SIMPLE.finditer(source):
            span = in_tag(m.start())
            if span is not None and span[0] == m.start():
                continue
            if span is not None:
                continue        # '%(' inside a quoted attribute value
            # a literal '%(': collision when the reference regex can match
            if EPFS_OPENER.match(source, m.start()):
                blame(m.start(), m.start() + 2)
    return sorted(bad)


def _inside_quotes(source, span, pos):
    return source[span[0]:pos].count('"') % 2 == 1


def sound_print(ast, syntax, style_choices=None, max_repairs=8):
    """Print ast; while the reference lexer sees a literal/tag collision drop
    the offending literal text node(s) and print again.  Returns
    (source, tokens, ast_used, repairs)."""
    import copy
    cur = ast
    repairs = 0
    while True:
        style = Style(style_choices) if style_choices is not None else None
        src, toks = print_ast(cur, syntax, style)
        bad = collisions(src, toks, syntax)
        if not bad:
            return src, toks, cur, repairs
        repairs += 1
        if repairs > max_repairs:
            cur = strip_literals(cur)
            style = Style(style_choices) if style_choices is not None else None
            src, toks = print_ast(cur, syntax, style)
            return src, toks, cur, repairs
        victims = set(toks[i][1] for i in bad)
        cur = drop_literals(copy.deepcopy(cur), victims)


def drop_literals(ast, victims):
    def walk(nodes):
        for n in nodes:
            if n['k'] == 'text' and n['s'] in victims:
                n['s'] = ''
            if n.get('eol'):
                n['eol'] = ['' if e in victims else e for e in n['eol']]
            for key in ('body', 'else', 'finally'):
                if isinstance(n.get(key), list):
                    walk(n[key])
            for b in n.get('bodies', ()):
                walk(b)
            for h in n.get('handlers', ()):
                walk(h['body'])
    walk(ast)
    return ast


def strip_literals(ast):
    import copy
    ast = copy.deepcopy(ast)

    def walk(nodes):
        for n in nodes:
            if n['k'] == 'text':
                n['s'] = re.sub(r'[^a-z \n]', '', n['s'])
            for key in ('body', 'else', 'finally'):
                if isinstance(n.get(key), list):
                    walk(n[key])
            for b in n.get('bodies', ()):
                walk(b)
            for h in n.get('handlers', ()):
                walk(h['body'])
    walk(ast)
    return ast


def subbodies(n):
    """All child node lists of a node."""
    out = []
    for key in ('body', 'else', 'finally'):
        if isinstance(n.get(key), list):
            out.append(n[key])
    for b in n.get('bodies', ()):
        out.append(b)
    for h in n.get('handlers', ()):
        out.append(h['body'])
    return out


def walk(ast):
    for n in ast:
        yield n
        for b in subbodies(n):
            for m in walk(b):
                yield m
