"""Live namespace values built from JSON specs, for the implementation world
and (independently) for the reference interpreter's world.

VALUE spec:
  scalar (str / int / float / bool / None)
  {"t":"bytes","v":latin1-text}
  {"t":"rec","id":i,"ret":VALUE[,"raises":"VfB"]}  recorder callable
  {"t":"obj","attrs":{name:VALUE}}                 object with attributes
  {"t":"list"|"tuple","items":[VALUE..]}
  {"t":"dict","items":{key:VALUE}}
  {"t":"tmpl","ast":[..],"defaults":{..},"vars":{..},"syntax":"dtml"}
  {"t":"probe","id":i}                             __render_with_namespace__
  {"t":"exc","n":"VfB"}                            exception class
  {"t":"iter","items":[..]}                        one-shot iterator
"""


class VfA(Exception):
    pass


class VfB(VfA):
    pass


class VfC(VfB):
    pass


class VfX(Exception):
    pass


class VfM(VfX, VfB):
    """Several direct bases: VfB (and VfA) are reached through the second
    one only."""


EXC = {c.__name__: c for c in (
    VfA, VfB, VfC, VfX, VfM, KeyError, LookupError, ZeroDivisionError,
    ArithmeticError, ValueError, TypeError, IndexError, RuntimeError,
    AttributeError, NameError, Exception)}


# distinct exception classes that share __name__ (as binascii.Error,
# shutil.Error, csv.Error ... do) but differ in their base classes
for _base in (ValueError, OSError, LookupError, Exception):
    EXC['Error/' + _base.__name__] = type('Error', (_base,), {})


# "twins": classes with the names of the Vf classes but another ancestry
# (all direct subclasses of Exception, VfC' even of LookupError)
for _n, _b in (('VfA', Exception), ('VfB', Exception), ('VfC', LookupError),
               ('VfX', ArithmeticError), ('VfM', Exception)):
    EXC['twin:' + _n] = type(_n, (_b,), {})


# an application's own hierarchy whose class names are also names of
# builtin / zExceptions exceptions (as requests, redis ... define them)
# ... written with class statements inside a function and inside a class
# body, as applications do (a client factory, a namespace class): the name
# of such a class is its __name__, not its qualified name
def _application_errors():
    class ServiceError(Exception):
        pass

    class ConnectionError(ServiceError):
        pass

    class TimeoutError(ConnectionError):
        pass

    class Errors:
        class NotFound(ServiceError):
            pass

        class KeyError(ServiceError):
            pass
    return (ServiceError, ConnectionError, TimeoutError, Errors.NotFound,
            Errors.KeyError)


for _c in _application_errors():
    EXC['user:' + _c.__name__] = _c


class Injected(Exception):
    """Marker mixin is not used: the injected exception is VfA itself so
    that dtml-except VfA handlers can catch it."""


class World:
    """Per-run bookkeeping shared by all values of one namespace."""

    def __init__(self, return_exc=None, fault_at=None, fault_kind='raise',
                 fault2_at=None):
        self.log = []
        self.counter = 0
        self.fault_at = fault_at
        self.fault2_at = fault2_at
        self.fault_kind = fault_kind
        self.return_exc = return_exc
        self.probes = []
        self.fired = []

    def tick(self, what):
        """Every user hook announces itself here; the k-th announcement may
        raise the injected fault."""
        self.counter += 1
        self.log.append(what)
        if self.counter == self.fault_at or self.counter == self.fault2_at:
            self.fired.append(self.counter)
            if self.fault_kind == 'return' and self.return_exc is not None \
                    and self.counter == self.fault_at:
                raise self.return_exc(['injected-return', self.counter])
            raise VfA('injected@%d' % self.counter)


class Rec:
    """Recorder callable."""

    def __init__(self, world, rid, ret, raises=None, sets=None):
        self.world = world
        self.rid = rid
        self.ret = ret
        self.raises = raises
        # side effect: [name of an object of the namespace, attribute, value]
        self.sets = sets
        self.target = None
        # harness hook run before the call is recorded (e.g. a nested
        # rendering of the template that is being rendered)
        self.pre = None

    def __call__(self):
        if self.pre is not None:
            self.pre()
        self.world.tick(('call', self.rid))
        if self.sets and self.target is not None:
            setattr(self.target, self.sets[1], self.sets[2])
        if self.raises:
            raise EXC[self.raises]('raised by f%s' % self.rid)
        return self.ret

    def __repr__(self):
        return '<Rec %s>' % self.rid


class Obj:
    def __init__(self, attrs, oid=None):
        self.__dict__.update(attrs)
        if oid is not None:
            self.__dict__['_oid'] = oid

    def __repr__(self):
        return '<Obj %s>' % ','.join(sorted(
            k for k in self.__dict__ if not k.startswith('_')))


class Probe:
    def __init__(self, world, pid):
        self.world = world
        self.pid = pid

    def __render_with_namespace__(self, md):
        self.world.tick(('probe', self.pid))
        self.world.probes.append((self.pid, self.snapshot(md)))
        return '⟦P%s⟧' % self.pid

    @staticmethod
    def snapshot(md):
        data = getattr(md, '_data', None)
        if data is not None:
            return (tuple(id(x) for x in data), md.level)
        return md.snapshot()


class HookObj:
    """Client object: every attribute read is an invocation point."""

    def __init__(self, world, hid, attrs):
        self.__dict__['_w'] = world
        self.__dict__['_h'] = hid
        self.__dict__['_a'] = attrs

    def __getattr__(self, name):
        if name.startswith('__'):
            raise AttributeError(name)
        self._w.tick(('getattr', self._h, name))
        try:
            return self._a[name]
        except KeyError:
            raise AttributeError(name)

    def __repr__(self):
        return '<HookObj %s>' % self._h


class HookSeq:
    """Sequence: __getitem__ and __len__ are invocation points."""

    def __init__(self, world, hid, items):
        self.w, self.h, self.items = world, hid, items

    def __getitem__(self, i):
        self.w.tick(('getitem', self.h, i))
        return self.items[i]

    def __len__(self):
        self.w.tick(('len', self.h))
        return len(self.items)

    def __repr__(self):
        return '<HookSeq %s>' % self.h


class HookIter:
    """Iterable: __iter__ / __next__ are invocation points."""

    def __init__(self, world, hid, items):
        self.w, self.h, self.items = world, hid, items

    def __iter__(self):
        self.w.tick(('iter', self.h))
        for x in self.items:
            self.w.tick(('next', self.h))
            yield x


class HookMap(dict):
    """Mapping: key reads are invocation points."""

    def __init__(self, world, hid, items):
        dict.__init__(self, items)
        self.w, self.h = world, hid

    def __getitem__(self, k):
        self.w.tick(('mapget', self.h, k))
        return dict.__getitem__(self, k)

    def get(self, k, default=None):
        self.w.tick(('mapget', self.h, k))
        return dict.get(self, k, default)


class HookVal:
    """Value whose __bool__, __str__, comparison and fmt= methods are
    invocation points."""

    def __init__(self, world, hid, truth, text, key=0):
        self.w, self.h, self.truth, self.text, self.key = \
            world, hid, truth, text, key

    def __bool__(self):
        self.w.tick(('bool', self.h))
        return self.truth

    def __str__(self):
        self.w.tick(('str', self.h))
        return self.text

    def __lt__(self, other):
        self.w.tick(('lt', self.h))
        return self.key < getattr(other, 'key', other)

    def __gt__(self, other):
        self.w.tick(('gt', self.h))
        return self.key > getattr(other, 'key', other)

    def __eq__(self, other):
        return self is other or self.key == getattr(other, 'key', other)

    def __hash__(self):
        return hash(self.h)

    def shout(self):
        self.w.tick(('fmt', self.h))
        return self.text.upper()

    def absolute_url(self):
        self.w.tick(('absolute_url', self.h))
        return 'http://h/' + str(self.h)


class Proxy:
    """Wrapper (as acquisition wrappers are): one class for everything it
    wraps; which protocols an instance offers depends on the wrapped
    object."""

    def __init__(self, obj):
        self.__dict__['_obj'] = obj

    def __getattr__(self, name):
        return getattr(self.__dict__['_obj'], name)

    def __getitem__(self, i):
        return self.__dict__['_obj'][i]

    def __len__(self):
        return len(self.__dict__['_obj'])

    def __iter__(self):
        return iter(self.__dict__['_obj'])

    def __repr__(self):
        return '<Proxy of %s>' % type(self.__dict__['_obj']).__name__


class Mutator:
    """Callable that changes the size of a mapping that is on the namespace
    stack (the harness sets .target): mode 'add' binds a new key, 'del'
    removes a spare key."""

    def __init__(self, world, mid, mode, on=None):
        self.world, self.mid, self.mode = world, mid, mode
        self.on = on             # name of the mapping to change (None: the
        self.target = None       # namespace's own bottom mapping)
        self.n = 0

    def __call__(self):
        self.world.tick(('mutate', self.mid))
        t = self.target
        if t is not None:
            self.n += 1
            if self.mode == 'add':
                t['zz%s%d' % (self.mid, self.n)] = self.n
            elif self.mode == 'empty':
                t.clear()
            else:
                for k in sorted(t):
                    if k.startswith('spare'):
                        del t[k]
                        break
        return ''

    def __repr__(self):
        return '<Mutator %s>' % self.mid


class TreeNode:
    """Node for dtml-tree: tpValues / tpId / tpURL / kids are invocation
    points."""

    def __init__(self, world, nid, children):
        self.w, self.nid, self.children = world, nid, children

    def tpValues(self):
        self.w.tick(('tpValues', self.nid))
        return self.children

    def kids(self):
        self.w.tick(('kids', self.nid))
        return self.children

    def tpId(self):
        self.w.tick(('tpId', self.nid))
        return self.nid

    def tpURL(self):
        return self.nid

    def title(self):
        self.w.tick(('title', self.nid))
        return 'T' + str(self.nid)


class Response:
    def __init__(self, world):
        self.w = world
        self.cookies = {}

    def setCookie(self, name, value, **kw):
        self.w.tick(('setCookie', name))
        self.cookies[name] = value


class ModelTemplate:
    """What the reference interpreter sees for a {"t":"tmpl"} value."""
    isDocTemp = 1

    def __init__(self, ast, defaults, vars_):
        self.ast = ast
        self.defaults = defaults
        self.vars = vars_


_HOOKED = {}


def hooked_class(base, world, how):
    """Template class that uses the render hooks (ZDocumentTemplate_
    beforeRender / afterRender) as a result cache, the way Zope's cacheable
    DTML objects do.  how: 'cache' | 'cache-raise' (the hook fails on a cache
    hit)."""
    key = (base, how)
    if key not in _HOOKED:
        class Hooked(base):
            _vf_world = None

            def ZDocumentTemplate_beforeRender(self, md, default):
                w = self._vf_world
                if w is not None:
                    w.tick(('hook', 'beforeRender'))
                cached = self.__dict__.get('_vf_cached', default)
                if cached is not default and how == 'cache-raise':
                    raise VfA('render hook failed')
                return cached

            def ZDocumentTemplate_afterRender(self, md, result):
                w = self._vf_world
                if w is not None:
                    w.tick(('hook', 'afterRender'))
                self.__dict__['_vf_cached'] = result
        _HOOKED[key] = Hooked
    cls = _HOOKED[key]
    return type('Hooked', (cls,), dict(_vf_world=world))


class MissingDict(dict):
    """A dict subclass that answers through __missing__ (the way
    collections.defaultdict and Counter do): nothing is stored."""

    def __init__(self, items):
        # one unrelated stored entry: an empty mapping is false, and the
        # call mapping is documented as optional (a false one is not used)
        dict.__init__(self, {'stored-entry': 1})
        self._computed = dict(items)

    def __missing__(self, key):
        return self._computed[key]


class RecordDict(dict):
    """A dict subclass with computed fields: __getitem__ is overridden,
    the stored keys are spelled differently (upper case)."""

    def __init__(self, items):
        dict.__init__(self, {str(k).upper() + '!': v
                             for k, v in items.items()})

    def __getitem__(self, key):
        return dict.__getitem__(self, str(key).upper() + '!')


class PlainMapping:
    """A mapping that is not a dict at all."""

    def __init__(self, items):
        self._d = dict(items)

    def __getitem__(self, key):
        return self._d[key]

    def keys(self):
        return self._d.keys()

    def __len__(self):
        return len(self._d)


MAPPING_CLASSES = dict(missing=MissingDict, record=RecordDict,
                       plainmapping=PlainMapping)


def build(spec, world, mode, keep=None):
    """mode: 'impl' (real DocumentTemplate objects) or 'model'."""
    if not isinstance(spec, dict):
        if isinstance(spec, list):
            return [build(x, world, mode, keep) for x in spec]
        return spec
    t = spec['t']
    if t == 'bytes':
        return spec['v'].encode('latin-1')
    if t == 'rec':
        return Rec(world, spec['id'], build(spec.get('ret'), world, mode,
                                            keep),
                   spec.get('raises'), spec.get('sets'))
    if t == 'obj':
        return Obj({k: build(v, world, mode, keep)
                    for k, v in spec['attrs'].items()})
    if t == 'list':
        return [build(x, world, mode, keep) for x in spec['items']]
    if t == 'tuple':
        return tuple(build(x, world, mode, keep) for x in spec['items'])
    if t == 'dict':
        d = {k: build(v, world, mode, keep)
             for k, v in spec['items'].items()}
        if spec.get('cls'):
            return MAPPING_CLASSES[spec['cls']](d)
        return d
    if t == 'iter':
        return iter([build(x, world, mode, keep) for x in spec['items']])
    if t == 'probe':
        return Probe(world, spec['id'])
    if t == 'hobj':
        return HookObj(world, spec['id'],
                       {k: build(v, world, mode, keep)
                        for k, v in spec['attrs'].items()})
    if t == 'hseq':
        return HookSeq(world, spec['id'],
                       [build(x, world, mode, keep) for x in spec['items']])
    if t == 'hiter':
        return HookIter(world, spec['id'],
                        [build(x, world, mode, keep) for x in spec['items']])
    if t == 'hmap':
        return HookMap(world, spec['id'],
                       {k: build(v, world, mode, keep)
                        for k, v in spec['items'].items()})
    if t == 'hval':
        return HookVal(world, spec['id'], spec.get('truth', True),
                       spec.get('text', 'hv'), spec.get('key', 0))
    if t == 'tree':
        return TreeNode(world, spec['id'],
                        [build(x, world, mode, keep)
                         for x in spec.get('children', [])])
    if t == 'treestate':
        # an encoded dtml-tree state (cookie) or click path, as the tag
        # itself writes them
        import json
        from TreeDisplay.TreeTag import compress, encode_str
        return encode_str(compress(json.dumps(spec['state']))).decode(
            'ascii')
    if t == 'decimal':
        import decimal
        return decimal.Decimal(spec['v'])
    if t == 'httpexc':
        import zExceptions
        return getattr(zExceptions, spec['n'])(spec.get('msg', 'm'))
    if t == 'proxy':
        return Proxy(build(spec['of'], world, mode, keep))
    if t == 'response':
        return Response(world)
    if t == 'mutator':
        return Mutator(world, spec['id'], spec['mode'], spec.get('on'))
    if t == 'exc':
        return EXC[spec['n']]
    if t == 'tainted':
        from AccessControl.tainted import TaintedString
        return TaintedString(spec['v'])
    if t == 'cmpf':
        # a comparison function of the author's (sort="key/name")
        sign = spec.get('sign', 1)
        return lambda a, b, sign=sign: sign * ((a > b) - (a < b))
    if t == 'tmpl':
        defaults = {k: build(v, world, mode, keep)
                    for k, v in spec.get('defaults', {}).items()}
        vars_ = {k: build(v, world, mode, keep)
                 for k, v in spec.get('vars', {}).items()}
        if mode == 'model':
            return ModelTemplate(spec['ast'], defaults, vars_)
        from DocumentTemplate import HTML, String
        from vf import dtml
        syntax = spec.get('syntax', 'dtml')
        src, _ = dtml.print_ast(spec['ast'], syntax)
        cls = String if syntax == 'epfs' else HTML
        if spec.get('hooks'):
            cls = hooked_class(cls, world, spec['hooks'])
        tm = cls(src, None, spec.get('name', 'sub'), **defaults)
        if vars_:
            tm.var(**vars_)
        return tm
    raise ValueError(t)


def build_ns(ns_spec, world, mode):
    ns = {k: build(v, world, mode) for k, v in ns_spec.items()}
    for v in ns.values():
        if isinstance(v, Rec) and v.sets:
            v.target = ns.get(v.sets[0])
    return ns
