"""Hypothesis strategies for abstract templates and their namespaces.

The namespace follows a fixed *schema* (the same names are always bound, with
drawn variations), the AST refers to names of the schema, so every reference
resolves unless the generator deliberately uses an undefined name."""
import keyword

from hypothesis import strategies as st

# near-tag literal fragments (DESIGN §3)
FRAGS = ['<', '<d', '<dtml', '<!--', '<!-', '&', '&dt', '&dtml', '&dtml-',
         '&dtml.', '%', '%(', ')', ')s', '[', ']', '"', "'", ';', '-->', '>',
         ' ', '\t', '\n', '\r\n', 'x', 'if', 'é', '/', '-', '.', 'a;',
         'dtml-var x', '<b>', '</d', '&amp;', '%%', '%(x', '100%', '\n\n',
         ' \n', 'end', '#', '中', '&dtml', '<dtml', 'var;']
EOLS = ['', '', '', '\n', ' \n', '\t \n', '  ', '\n\n', '\r\n', ' \t\n ']

SENT = {'va': '⟦A⟧', 'vb': '⟦B⟧'}


def literal(max_frags=6, frags=None):
    return st.lists(st.sampled_from(frags or FRAGS), min_size=0,
                    max_size=max_frags).map(''.join)


def text_node(max_frags=6, frags=None):
    return literal(max_frags, frags).map(lambda s: dict(k='text', s=s))


def eols(n):
    return st.lists(st.sampled_from(EOLS), min_size=n, max_size=n)


def base_ns(draw=None, probes=0, hooks=False):
    """The namespace schema as a spec."""
    obj = dict(t='obj', attrs=dict(va='⟦OA.va⟧', xo='⟦OA.xo⟧', _pv='⟦PRIV⟧',
                                   fo=dict(t='rec', id='oa.fo',
                                           ret='⟦OA.fo⟧')))
    ns = dict(
        va='⟦A⟧', vb='⟦B⟧', vn=7, vz='', vnone=None,
        vby=dict(t='bytes', v='[BY]'),
        ct=1, cf=0,
        # hyphenated names that end like the variables dtml-in defines
        **{'content-length': '⟦CL⟧', 'page-number': '⟦PN⟧',
           'my-item': '⟦MI⟧', 'doc-key': '⟦DK⟧', 'row-index': '⟦RI⟧',
           'x-even': '⟦XE⟧', 'q-roman': '⟦QR⟧', 'tab-start': '⟦TS⟧',
           'sequence-foo': '⟦SF⟧', 'a-size': '⟦AS⟧', 'b-batches': '⟦BB⟧'},
        # names spelled like tag and continuation words
        **{'else': '⟦ELSE⟧', 'elif': '⟦ELIF⟧', 'except': '⟦EXCEPT⟧',
           'finally': '⟦FINALLY⟧', 'in': '⟦IN⟧', 'if': '⟦IF⟧',
           'var': '⟦VAR⟧', 'end': '⟦END⟧', 'try': '⟦TRY⟧'},
        # names spelled like attributes of the var tag; mixed-case names
        # next to their lower-case spellings
        **{'size': '⟦SIZE⟧', 'url': '⟦URL-lower⟧', 'upper': '⟦UPPER⟧',
           'lower': '⟦LOWER⟧', 'null': '⟦NULL⟧', 'fmt': '⟦FMT⟧',
           'etc': '⟦ETC⟧', 'missing': '⟦MISSING⟧', 'html_quote': '⟦HQ⟧',
           'Title': '⟦Title⟧', 'title': '⟦title⟧',
           'URL': '⟦URL⟧', 'vA': '⟦vA⟧'},
        # names that are proper prefixes of other names of the schema
        v='⟦V⟧', c=0, s=dict(t='list', items=['⟦s⟧']),
        fa=dict(t='rec', id='fa', ret='⟦FA⟧'),
        ft=dict(t='rec', id='ft', ret=1),
        fut=dict(t='rec', id='fut', ret=None, raises='user:TimeoutError'),
        fuc=dict(t='rec', id='fuc', ret=None, raises='user:ConnectionError'),
        fun=dict(t='rec', id='fun', ret=None, raises='user:NotFound'),
        fuk=dict(t='rec', id='fuk', ret=None, raises='user:KeyError'),
        ff=dict(t='rec', id='ff', ret=0),
        fr=dict(t='rec', id='fr', ret=None, raises='VfB'),
        oa=obj,
        ma=dict(t='dict', items=dict(va='⟦MA.va⟧', xm='⟦MA.xm⟧')),
        s0=dict(t='list', items=[]),
        s2=dict(t='list', items=[
            dict(t='obj', attrs=dict(va='⟦S2.0.va⟧', xi='⟦S2.0.xi⟧')),
            dict(t='obj', attrs=dict(va='⟦S2.1.va⟧', xi='⟦S2.1.xi⟧'))]),
        sm=dict(t='list', items=[
            dict(t='dict', items=dict(va='⟦SM.0.va⟧', xk='⟦SM.0.xk⟧')),
            dict(t='dict', items=dict(va='⟦SM.1.va⟧', xk='⟦SM.1.xk⟧')),
            dict(t='dict', items=dict(va='⟦SM.2.va⟧', xk='⟦SM.2.xk⟧'))]),
        sp=dict(t='tuple', items=[
            dict(t='tuple', items=['k0', dict(t='obj', attrs=dict(
                va='⟦SP.0.va⟧'))]),
            dict(t='tuple', items=['k1', dict(t='obj', attrs=dict(
                va='⟦SP.1.va⟧'))])]),
        ss=dict(t='list', items=['⟦s0⟧', '⟦s1⟧']),
        # objects, texts and numbers in one sequence
        smix=dict(t='list', items=[
            dict(t='obj', attrs=dict(va='⟦MX.0.va⟧', xi='⟦MX.0.xi⟧')),
            '⟦mx1⟧', 7,
            dict(t='obj', attrs=dict(va='⟦MX.3.va⟧')), '⟦mx4⟧']),
        VfA=dict(t='exc', n='VfA'), VfB=dict(t='exc', n='VfB'),
        VfC=dict(t='exc', n='VfC'), VfX=dict(t='exc', n='VfX'),
        VfM=dict(t='exc', n='VfM'),
        ta=dict(t='tmpl', defaults=dict(td='⟦TA.td⟧', vb='⟦TA.vb⟧'),
                ast=[dict(k='text', s='(ta:'),
                     dict(k='var', ref=dict(r='name', n='va')),
                     dict(k='var', ref=dict(r='name', n='vb')),
                     dict(k='var', ref=dict(r='name', n='td')),
                     dict(k='text', s=')')]),
    )
    ns['tr'] = dict(t='tmpl', defaults={}, ast=[
        dict(k='text', s='(tr'),
        dict(k='return', ref=dict(r='name', n='vn')),
        dict(k='text', s='never)')])
    # returns from inside a loop over pushed items
    ns['tl'] = dict(t='tmpl', defaults=dict(td='⟦TL.td⟧', vb='⟦TL.vb⟧'), ast=[
        dict(k='text', s='(tl'),
        dict(k='in', ref=dict(r='name', n='s2'), opts=[], body=[
            dict(k='var', ref=dict(r='name', n='xi'), opts=[]),
            dict(k='return', ref=dict(r='name', n='vn'))],
            **{'else': None}),
        dict(k='text', s='never)')])
    ns['tx'] = dict(t='tmpl', defaults=dict(td='x'), ast=[
        dict(k='text', s='(tx'),
        dict(k='var', ref=dict(r='name', n='fr'), opts=[]),
        dict(k='text', s='never)')])
    if hooks:
        def hitem(i):
            return dict(t='hobj', id='hs%d' % i, attrs=dict(
                va='⟦HS.%d.va⟧' % i, xi=i, xn=i * 2 + 1,
                hk=dict(t='hval', id='hk%d' % i, key=(i * 7) % 3,
                        text='k%d' % i)))
        ns.update(
            ho=dict(t='hobj', id='ho', attrs=dict(
                va='⟦HO.va⟧', xo='⟦HO.xo⟧',
                fo=dict(t='rec', id='ho.fo', ret='⟦HO.fo⟧'))),
            hs=dict(t='hseq', id='hs', items=[hitem(i) for i in range(3)]),
            hi=dict(t='hiter', id='hi', items=[hitem(7), hitem(8)]),
            hm=dict(t='hmap', id='hm', items=dict(va='⟦HM.va⟧',
                                                  xm='⟦HM.xm⟧')),
            hl=dict(t='list', items=[
                dict(t='hmap', id='hl%d' % i, items=dict(va='⟦HL%d⟧' % i,
                                                         xi=i))
                for i in range(2)]),
            hx=dict(t='list', items=[hitem(4), '⟦hx-str⟧', 5,
                                     dict(t='tuple', items=['kk', hitem(6)]),
                                     '⟦hx-str2⟧']),
            hv=dict(t='hval', id='hv', truth=True, text='⟦HV⟧'),
            hf=dict(t='hval', id='hf', truth=False, text='⟦HF⟧'),
            tq=dict(t='tree', id='r', children=[
                dict(t='tree', id='a', children=[
                    dict(t='tree', id='a1'), dict(t='tree', id='a2')]),
                dict(t='tree', id='b', children=[dict(t='tree', id='b1')])]),
            tn=dict(t='tmpl', defaults=dict(tnd='⟦TN⟧'), ast=[
                dict(k='text', s='(tn'),
                dict(k='var', ref=dict(r='name', n='ta'), opts=[]),
                dict(k='var', ref=dict(r='name', n='fa'), opts=[]),
                dict(k='text', s=')')]),
            URL='http://host/root/obj', RESPONSE=dict(t='response'),
            # callables that grow / shrink a mapping of the namespace stack
            mua=dict(t='mutator', id='a', mode='add'),
            mud=dict(t='mutator', id='d', mode='del'),
            # sub-templates whose class caches results through the render
            # hooks (second and later calls are cache hits)
            tc=dict(t='tmpl', hooks='cache', defaults=dict(tcd='⟦TC⟧',
                                                           va='⟦TC.va⟧'),
                    ast=[dict(k='text', s='(tc'),
                         dict(k='var', ref=dict(r='name', n='va'), opts=[]),
                         dict(k='text', s=')')]),
            tcx=dict(t='tmpl', hooks='cache-raise',
                     defaults=dict(tcd='⟦TCX⟧', vb='⟦TCX.vb⟧'),
                     ast=[dict(k='text', s='(tcx'),
                          dict(k='var', ref=dict(r='name', n='vb'), opts=[]),
                          dict(k='text', s=')')]),
            # mappings whose truth value changes while they are pushed
            mf=dict(t='dict', items={}),
            me=dict(t='dict', items=dict(va='⟦ME.va⟧', xm='⟦ME.xm⟧')),
            muf=dict(t='mutator', id='f', mode='add', on='mf'),
            mue=dict(t='mutator', id='e', mode='empty', on='me'),
            spare1=1, spare2=2, spare3=3)
    for i in range(probes):
        ns['p%d' % i] = dict(t='probe', id=i)
    return ns


PLAIN_NAMES = ['va', 'vb', 'vn', 'v']
COND_NAMES = ['ct', 'cf', 'cu', 'ft', 'ff', 'va', 'vz', 'c', 'v', 's']
SEQ_NAMES = ['s0', 's2', 'ss', 's', 'smix']


# literal batch options (always with an explicit orphan; C11's statement
# fixes the window for these)
BATCH_OPTS = [
    [['size', '1'], ['orphan', '0']], [['size', '2'], ['orphan', '0']],
    [['size', '5'], ['orphan', '0']], [['size', '2'], ['orphan', '1']],
    [['start', '2'], ['size', '1'], ['orphan', '0']],
    [['start', '2'], ['size', '4'], ['orphan', '0']],
    [['start', '1'], ['end', '9'], ['orphan', '0']],
    [['start', '2'], ['end', '2'], ['size', '3'], ['orphan', '0']],
    [['start', '3'], ['size', '2'], ['orphan', '0']],
]


def name_ref(names):
    return st.sampled_from(names).map(lambda n: dict(r='name', n=n))


def expr_ref(exprs):
    return st.sampled_from(exprs).map(lambda e: dict(r='expr', e=e))


def E(kind, **kw):
    d = dict(e=kind)
    d.update(kw)
    return d


class Config:
    """What the AST generator may produce."""

    def __init__(self, kinds, max_depth=3, max_items=4, literals=True,
                 eol=True, var_names=None, cond_refs=None, probes=0,
                 frags=6, exprs=True, frag_list=None):
        self.kinds = kinds
        self.max_depth = max_depth
        self.max_items = max_items
        self.literals = literals
        self.eol = eol
        self.var_names = var_names or PLAIN_NAMES
        self.cond_refs = cond_refs
        self.probes = probes
        self.frags = frags
        self.frag_list = frag_list
        self.exprs = exprs


ALL_KINDS = ['text', 'var', 'ent', 'call', 'if', 'unless', 'in', 'with',
             'let', 'try', 'comment']


def body(cfg, depth, scope):
    """scope: tuple of extra variable names visible here."""
    key = ('body', depth, scope)
    memo = cfg.__dict__.setdefault('_memo', {})
    if key not in memo:
        memo[key] = st.lists(st.deferred(lambda: node(cfg, depth, scope)),
                             min_size=0,
                             max_size=cfg.max_items if depth < 2 else 2)
    return memo[key]


def cond_ref(cfg):
    if cfg.cond_refs is not None:
        return cfg.cond_refs
    memo = cfg.__dict__.setdefault('_memo', {})
    if 'cond' in memo:
        return memo['cond']
    refs = [name_ref(COND_NAMES)]
    if cfg.exprs:
        refs.append(expr_ref([
            E('name', n='ct'), E('name', n='cf'), E('not', a=E('name',
                                                              n='cf')),
            E('has', n='cu'), E('has', n='va'), E('ns', n='ft'),
            E('eq', a=E('name', n='vn'), b=E('lit', v=7)),
            E('lit', v=0), E('lit', v='x'),
            E('gt', a=E('name', n='vn'), b=E('lit', v=1)),
            E('gt', a=E('lit', v=1), b=E('name', n='vn'))]))
    memo['cond'] = st.one_of(refs)
    return memo['cond']


def var_node(cfg, scope):
    names = list(cfg.var_names) + list(scope)
    plain = st.builds(lambda n: dict(k='var', ref=dict(r='name', n=n),
                                     opts=[]), st.sampled_from(names))
    choices = [plain, plain]
    if cfg.exprs:
        choices.append(st.builds(
            lambda n: dict(k='var', ref=dict(r='expr', e=E('name', n=n)),
                           opts=[]),
            st.sampled_from([n for n in names if '-' not in n and
                             not keyword.iskeyword(n)])))
        choices.append(st.builds(
            lambda n, o: dict(k='var', ref=dict(r='name', n=n), opts=o),
            st.sampled_from(names + ['cu']),
            st.sampled_from([[['missing', '⟦M⟧']], [['html_quote', None]],
                             [['upper', None]], [['null', '⟦N⟧']],
                             [['missing', ''], ['lower', None]]])))
    return st.one_of(choices)


def node(cfg, depth, scope):
    key = ('node', depth, scope)
    memo = cfg.__dict__.setdefault('_memo', {})
    if key not in memo:
        kinds = [k for k in cfg.kinds
                 if depth < cfg.max_depth or k in ('text', 'var', 'ent',
                                                   'call', 'boom', 'sub',
                                                   'return', 'statein')]
        memo[key] = st.one_of([node_of(cfg, k, depth, scope) for k in kinds])
    return memo[key]


EXTRA_KINDS = {}      # kind -> function(cfg, depth, scope) -> strategy


def node_of(cfg, k, depth, scope):
    d = depth + 1
    if k in EXTRA_KINDS:
        return EXTRA_KINDS[k](cfg, depth, scope)
    if k == 'text':
        return text_node(cfg.frags, cfg.frag_list) if cfg.literals else \
            st.sampled_from(['a', 'b ', '\n', 'x\n']).map(
                lambda s: dict(k='text', s=s))
    if k == 'var':
        if cfg.probes and depth >= 0:
            return st.one_of(var_node(cfg, scope), st.integers(
                0, cfg.probes - 1).map(lambda i: dict(
                    k='var', ref=dict(r='name', n='p%d' % i), opts=[])))
        return var_node(cfg, scope)
    if k == 'ent':
        return st.builds(lambda n, m: dict(k='ent', n=n, mods=m),
                         st.sampled_from(list(cfg.var_names) + list(scope)),
                         st.sampled_from([[], [], ['upper'],
                                          ['html_quote', 'lower']]))
    if k == 'call':
        return st.sampled_from(['fa', 'ft', 'ff', 'va']).map(
            lambda n: dict(k='call', ref=dict(r='name', n=n)))
    e = eols if cfg.eol else (lambda n: st.just([''] * n))
    if k == 'if':
        return st.one_of([st.builds(
            lambda conds, bodies, els, eol: dict(
                k='if', conds=conds, bodies=bodies, eol=eol,
                **{'else': els}),
            st.lists(cond_ref(cfg), min_size=n, max_size=n),
            st.lists(body(cfg, d, scope), min_size=n, max_size=n),
            st.one_of(st.none(), body(cfg, d, scope)),
            e(n + 2)) for n in (1, 1, 2, 3)])
    if k == 'unless':
        return st.builds(lambda r, b, eol, ae: dict(
            k='unless', ref=r, body=b, eol=eol, as_else=ae == 0),
            cond_ref(cfg), body(cfg, d, scope), e(2), st.integers(0, 2))
    if k == 'in':
        def mk(seq, opts, b, els, eol):
            return dict(k='in', ref=dict(r='name', n=seq), opts=opts, body=b,
                        eol=eol, **{'else': els})
        plain = st.builds(
            mk, st.sampled_from(SEQ_NAMES),
            st.sampled_from([[], [], [['prefix', 'pq']],
                             [['no_push_item', None]]] + BATCH_OPTS),
            body(cfg, d, scope + ('sequence-item', 'sequence-index',
                                  'sequence-number')),
            st.one_of(st.none(), body(cfg, d, scope)), e(3))
        objs = st.builds(
            mk, st.just('s2'), st.just([]),
            body(cfg, d, scope + ('xi', 'sequence-var-xi',
                                  'sequence-number')),
            st.one_of(st.none(), body(cfg, d, scope)), e(3))
        maps = st.builds(
            mk, st.just('sm'), st.just([['mapping', None]]),
            body(cfg, d, scope + ('xk', 'sequence-index')),
            st.none(), e(3))
        pairs = st.builds(
            mk, st.just('sp'), st.just([]),
            body(cfg, d, scope + ('sequence-key', 'sequence-number')),
            st.none(), e(3))
        return st.one_of(plain, objs, maps, pairs)
    if k == 'with':
        a = st.builds(lambda b, only, eol: dict(
            k='with', ref=dict(r='name', n='oa'), mapping=False, only=only,
            body=b, eol=eol),
            body(cfg, d, scope + ('xo', 'fo')) if True else None,
            st.booleans(), e(2))
        m = st.builds(lambda b, eol: dict(
            k='with', ref=dict(r='name', n='ma'), mapping=True, only=False,
            body=b, eol=eol), body(cfg, d, scope + ('xm',)), e(2))
        return st.one_of(a, m)
    if k == 'let':
        binds = st.sampled_from([
            [['la', dict(r='name', n='va')]],
            [['la', dict(r='name', n='vb')], ['lb', dict(r='name', n='la')]],
            [['la', dict(r='expr', e=E('cat', a=E('name', n='va'),
                                        b=E('lit', v='+')))]],
            [['va', dict(r='name', n='vb')]],
            [['la', dict(r='name', n='fa')]],
        ])
        return st.builds(lambda bi, b, eol: dict(k='let', binds=bi, body=b,
                                                 eol=eol),
                         binds, body(cfg, d, scope + ('la',)), e(2))
    if k == 'try':
        handlers = st.lists(st.builds(
            lambda names, b: dict(names=names, body=b),
            st.sampled_from([['VfA'], ['VfB'], ['VfC'], ['VfX'],
                             ['KeyError'], ['VfX', 'VfB'], [],
                             ['LookupError'], ['ZeroDivisionError'],
                             ['ArithmeticError', 'VfC']]),
            body(cfg, d, scope + ('error_type', 'error_value'))),
            min_size=1, max_size=3).map(dedupe_default)
        tbody = body(cfg, d, scope)
        if 'boom' in cfg.kinds:
            # make the try body raise (or return) more often than chance
            def insert(b, extra, pos):
                if extra is None:
                    return b
                b = list(b)
                b.insert(pos % (len(b) + 1), extra)
                return b
            extras = [st.none(), node_of(cfg, 'boom', d, scope)]
            if 'raise' in cfg.kinds:
                extras += [node_of(cfg, 'raise', d, scope)] * 2
            if 'return' in cfg.kinds:
                extras.append(node_of(cfg, 'return', d, scope))
            tbody = st.builds(insert, tbody, st.one_of(extras),
                              st.integers(0, 5))
        exc = st.builds(
            lambda b, hs, els, eol: dict(k='try', body=b, handlers=hs,
                                         eol=eol, **{'else': els,
                                                     'finally': None}),
            tbody, handlers,
            st.one_of(st.none(), body(cfg, d, scope)), e(6))
        fin = st.builds(
            lambda b, f, eol: dict(k='try', body=b, handlers=[], eol=eol,
                                   **{'else': None, 'finally': f}),
            tbody, body(cfg, d, scope), e(3))
        return st.one_of(exc, exc, fin)
    if k == 'comment':
        return st.builds(lambda b, eol: dict(k='comment', body=b, eol=eol),
                         body(cfg, d, scope), e(2))
    if k == 'raise':
        ref = st.one_of(
            st.sampled_from(['VfA', 'VfB', 'VfC', 'VfX', 'VfM']).map(
                lambda n: dict(r='expr', e=E('name', n=n))),
            st.sampled_from(['KeyError', 'ZeroDivisionError', 'ValueError',
                             'NotFound', 'BadRequest']).map(
                lambda n: dict(r='type', n=n)))
        msg = st.lists(st.one_of(
            st.sampled_from(['boom', 'x y', '']).map(
                lambda s: dict(k='text', s=s)),
            st.sampled_from(['va', 'vn']).map(
                lambda n: dict(k='var', ref=dict(r='name', n=n), opts=[]))),
            max_size=2)
        return st.builds(lambda r, b: dict(k='raise', ref=r, body=b,
                                           eol=['', '']), ref, msg)
    if k == 'return':
        return st.one_of(
            st.sampled_from(['va', 'vn', 's2', 'oa', 'vnone', 'fa']).map(
                lambda n: dict(k='return', ref=dict(r='name', n=n))),
            st.sampled_from([E('name', n='s2'), E('lit', v=3),
                             E('name', n='fa'), E('name', n='ma')]).map(
                lambda x: dict(k='return', ref=dict(r='expr', e=x))))
    if k == 'boom':
        # something that raises when rendered
        return st.sampled_from([
            dict(k='var', ref=dict(r='name', n='fr'), opts=[]),
            dict(k='var', ref=dict(r='name', n='cu'), opts=[]),
            dict(k='var', ref=dict(r='expr', e=E('div0')), opts=[]),
            dict(k='call', ref=dict(r='name', n='fr')),
            dict(k='var', ref=dict(r='expr', e=E('name', n='cu')), opts=[]),
        ])
    if k == 'hook':
        def vn(n, *opts):
            return dict(k='var', ref=dict(r='name', n=n),
                        opts=[list(o) for o in opts])
        inner = body(cfg, d, scope + ('va', 'xi'))
        menu = [
            st.just(vn('tc')), st.just(vn('tcx')),
            st.just(vn('mua')), st.just(vn('mud')),
            st.just(dict(k='call', ref=dict(r='name', n='mua'))),
            st.just(vn('hv')), st.just(vn('hv', ('fmt', 'shout'))),
            st.just(vn('hv', ('url', None))),
            st.just(vn('hv', ('upper', None), ('size', '1'))),
            st.builds(lambda b: dict(k='if', conds=[dict(r='name', n='hv')],
                                     bodies=[b], **{'else': None}), inner),
            st.builds(lambda b: dict(k='if', conds=[dict(r='name', n='hf'),
                                                    dict(r='name', n='hv')],
                                     bodies=[[], b], **{'else': b}), inner),
            st.builds(lambda b: dict(k='with', ref=dict(r='name', n='ho'),
                                     mapping=False, only=False, body=b),
                      inner),
            st.builds(lambda b: dict(k='with', ref=dict(r='name', n='hm'),
                                     mapping=True, only=False, body=b),
                      inner),
            st.builds(lambda b, o: dict(
                k='with', ref=dict(r='name', n='mf'), mapping=True,
                only=o, body=[vn('muf')] + b), inner, st.booleans()),
            st.builds(lambda b: dict(
                k='with', ref=dict(r='name', n='me'), mapping=True,
                only=False, body=b + [vn('mue')] + b), inner),
            st.builds(lambda b: dict(
                k='in', ref=dict(r='name', n='hl'), opts=[['mapping', None]],
                body=[vn('muf'), vn('mue')] + b, **{'else': None}), inner),
            # explicit calls of a sub-template on the current namespace
            st.sampled_from(['ta((oa, ho), _)', 'ta((), _)', 'ta(oa, _)',
                             'ta((oa,), _)', 'ta(None, _, va=1)',
                             'tx((oa, ho, oa), _)', 'tr((ho, oa), _)',
                             'ta(ho, _.namespace(va=2)[0])'[:0] +
                             'ta((ho, oa), _, vb=2)']).map(
                lambda e: dict(k='var', ref=dict(r='expr', e=E('raw', s=e)),
                               opts=[])),
            st.builds(lambda b, o: dict(k='in', ref=dict(r='name', n='hs'),
                                        opts=o, body=b, **{'else': None}),
                      inner, st.sampled_from([
                          [], [['sort', 'hk']], [['reverse', None]],
                          [['size', '2'], ['orphan', '0']],
                          [['sort', 'hk'], ['size', '2'], ['start', '2']],
                          [['prefix', 'pq']], [['no_push_item', None]],
                          [['sort_expr', "'hk'"]],
                          [['size', '1'], ['next', None]],
                          [['skip_unauthorized', None]]])),
            st.builds(lambda b, o: dict(k='in', ref=dict(r='name', n='hx'),
                                        opts=o, body=b, **{'else': None}),
                      inner, st.sampled_from([[], [['reverse', None]],
                                              [['size', '3']]])),
            st.builds(lambda b: dict(k='in', ref=dict(r='name', n='hi'),
                                     opts=[], body=b, **{'else': b}), inner),
            st.builds(lambda b: dict(k='in', ref=dict(r='name', n='hl'),
                                     opts=[['mapping', None]], body=b,
                                     **{'else': None}), inner),
            st.builds(lambda b: dict(
                k='in', ref=dict(r='expr', e=E('name', n='hs')), opts=[],
                body=b + [vn('total-xn'), vn('mean-xn'),
                          vn('sequence-length')], **{'else': None}), inner),
            st.builds(lambda b: dict(
                k='let', binds=[['la', dict(r='name', n='hv')],
                                ['lb', dict(r='name', n='fa')],
                                ['lc', dict(r='expr', e=E(
                                    'attr', a=E('name', n='ho'), n='xo'))]],
                body=b), inner),
        ]
        return st.one_of(menu)
    if k == 'tree':
        inner = st.lists(st.sampled_from([
            dict(k='var', ref=dict(r='name', n='title'), opts=[]),
            dict(k='var', ref=dict(r='name', n='tpId'), opts=[]),
            dict(k='text', s='n'),
            dict(k='var', ref=dict(r='name', n='fa'), opts=[]),
            dict(k='var', ref=dict(r='name', n='tree-level'), opts=[]),
        ]), max_size=3)
        opts = st.sampled_from([
            [], [['branches', 'kids']], [['branches_expr', 'kids()']],
            [['branches_expr', 'fr()']], [['sort', 'nid']],
            [['header', 'ta']], [['leaves', 'ta']], [['footer', 'tx']],
            [['expand', 'ta']], [['reverse', None]],
            [['branches_expr', 'kids()'], ['header', 'tx']],
            [['assume_children', None]], [['single', None]],
            [['skip_unauthorized', None]], [['nowrap', None]],
            [['branches', 'kids'], ['leaves', 'tr']],
        ])
        return st.builds(lambda o, b: dict(
            k='tree', ref=dict(r='name', n='tq'), opts=o, body=b),
            opts, inner)
    if k == 'sub':
        return st.sampled_from(['ta', 'ta', 'tr', 'tx', 'tn']
                               if 'hook' in cfg.kinds else
                               ['ta', 'ta', 'tr', 'tx']).map(
            lambda n: dict(k='var', ref=dict(r='name', n=n), opts=[]))
    raise ValueError(k)


def dedupe_default(handlers):
    """At most one bare except is allowed by the grammar."""
    seen = False
    out = []
    for h in handlers:
        if not h['names']:
            if seen:
                continue
            seen = True
        out.append(h)
    return out


def template(cfg):
    return body(cfg, 0, ())


def style():
    return st.lists(st.integers(0, 50), min_size=1, max_size=12)
