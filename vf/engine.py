"""Tiering, seeding, sharding, bucket bookkeeping, evidence and replay I/O.

A check module (checks/cNN.py) provides

    ID, RULE, ASSUMPTIONS (list of str), EXHAUSTIVE (optional: set of tiers)
    plan(tier, seed)      -> list of JSON-able shard descriptions
    run_shard(shard)      -> Acc.result() (see Acc)
    replay(case)          -> None, or (bucket, message) when the case violates

A *case* is always JSON-serialisable data; live objects are rebuilt from it.
A *bucket* is a short string naming a root cause; buckets listed in
known_findings.json with status "known" are reported as KNOWN-FINDING and do
not fail the check, every other bucket is a VIOLATION.
"""
import collections
import hashlib
import importlib
import json
import multiprocessing
import os
import random
import re
import signal
import sys
import time
import traceback

ROOT = os.path.dirname(os.path.dirname(os.path.abspath(__file__)))
KNOWN_FILE = os.path.join(ROOT, 'known_findings.json')
NCPU = 16
CHECK_IDS = ['C%02d' % i for i in range(1, 21)]


# ---------------------------------------------------------------- utilities

def canon(obj):
    return json.dumps(obj, sort_keys=True, ensure_ascii=True,
                      separators=(',', ':'), default=repr)


def h8(obj):
    return hashlib.blake2b(canon(obj).encode(), digest_size=8).digest()


def jsonable(obj):
    return json.loads(json.dumps(obj, default=repr))


def case_size(obj):
    """Size used to prefer the smallest failing case of a bucket
    (iterative: cases may be nested hundreds of levels deep)."""
    total, stack = 0, [obj]
    while stack:
        o = stack.pop()
        if isinstance(o, bool) or o is None:
            total += 1
        elif isinstance(o, (int, float)):
            total += 1 + min(abs(o), 10 ** 6)
        elif isinstance(o, str):
            total += 1 + len(o)
        elif isinstance(o, (list, tuple)):
            total += 1
            stack.extend(o)
        elif isinstance(o, dict):
            total += 1
            stack.extend(o.keys())
            stack.extend(o.values())
        else:
            total += 10
    return total


class CpuTimeout(BaseException):
    """Raised from the ITIMER_VIRTUAL handler; derives from BaseException so
    that `except Exception` in the code under test cannot swallow it."""


class cpu_limit:
    """with cpu_limit(5.0): ...   raises CpuTimeout after 5 CPU-seconds."""

    def __init__(self, seconds):
        self.seconds = seconds

    def _handler(self, signum, frame):
        raise CpuTimeout()

    def __enter__(self):
        self.old = signal.signal(signal.SIGVTALRM, self._handler)
        # repeating: an exception raised by the handler while the interpreter
        # is inside a trace / gc callback is discarded ("Exception ignored
        # in"), the next expiry raises it again
        signal.setitimer(signal.ITIMER_VIRTUAL, self.seconds, 0.25)
        return self

    def __exit__(self, *exc):
        signal.setitimer(signal.ITIMER_VIRTUAL, 0)
        signal.signal(signal.SIGVTALRM, self.old)
        return False


_known_cache = None


def known_findings():
    global _known_cache
    if _known_cache is None:
        try:
            with open(KNOWN_FILE) as f:
                _known_cache = json.load(f).get('findings', [])
        except FileNotFoundError:
            _known_cache = []
    return _known_cache


def match_known(prop, bucket):
    """Return the known-finding record (status 'known') matching a bucket."""
    for f in known_findings():
        if f.get('property') != prop or f.get('status') != 'known':
            continue
        if f.get('bucket') == bucket:
            return f
        pat = f.get('bucket_re')
        if pat and re.fullmatch(pat, bucket):
            return f
    return None


# ------------------------------------------------------------- accumulator

class Acc:
    """Collects what one shard covered."""

    def __init__(self, prop, max_samples=4, sample_every=97):
        self.prop = prop
        self.evals = 0
        self.nt_hashes = set()
        self.nt_counted = 0        # distinct by construction (enumerations)
        self.samples = []
        self.first = None
        self.nt_seen = 0
        self.max_samples = max_samples
        self.sample_every = sample_every
        self.hist = collections.Counter()
        self.failures = {}         # bucket -> dict(case,msg,size,count)
        self.notes = []

    def case(self, case=None, nontrivial=False, klass=None, n=1,
             distinct_by_construction=False, sample=None):
        self.evals += n
        if klass:
            if isinstance(klass, str):
                self.hist[klass] += n
            else:
                for k in klass:
                    self.hist[k] += n
        if self.first is None and case is not None:
            self.first = jsonable(sample if sample is not None else case)
        if nontrivial:
            if distinct_by_construction:
                self.nt_counted += n
            else:
                self.nt_hashes.add(h8(case))
            self.nt_seen += 1
            if len(self.samples) < self.max_samples and \
                    (self.nt_seen % self.sample_every == 1 or
                     self.sample_every == 1 or not self.samples):
                self.samples.append(jsonable(sample if sample is not None
                                             else case))

    def fail(self, bucket, case, msg):
        case = jsonable(case)
        size = case_size(case)
        cur = self.failures.get(bucket)
        if cur is None:
            self.failures[bucket] = dict(case=case, msg=str(msg)[:2000],
                                         size=size, count=1)
        else:
            cur['count'] += 1
            if size < cur['size']:
                cur.update(case=case, msg=str(msg)[:2000], size=size)

    def seen(self, bucket):
        return bucket in self.failures

    def result(self):
        if not self.samples and self.first is not None:
            self.samples.append(self.first)
        return dict(evals=self.evals, nt_hashes=self.nt_hashes,
                    nt_counted=self.nt_counted, samples=self.samples,
                    hist=dict(self.hist), failures=self.failures,
                    notes=self.notes)


# ------------------------------------------------------ hypothesis helpers

def hyp_settings(n, shrink=False):
    from hypothesis import HealthCheck, Phase, settings
    phases = [Phase.generate]
    if shrink:
        phases.append(Phase.shrink)
    return settings(max_examples=n, database=None, deadline=None,
                    derandomize=False, report_multiple_bugs=False,
                    phases=phases,
                    suppress_health_check=list(HealthCheck))


def hyp_run(strategy, fn, n, seed):
    """Generate n cases; fn(case) records failures itself and returns."""
    from hypothesis import given, seed as hseed

    @hseed(seed)
    @hyp_settings(n)
    @given(strategy)
    def runner(case):
        fn(case)

    runner()


def hyp_shrink(strategy, predicate, seed, n=400):
    """Minimal case satisfying predicate (None when not re-found)."""
    from hypothesis import find
    from hypothesis.errors import NoSuchExample
    try:
        return find(strategy, predicate,
                    settings=hyp_settings(n, shrink=True),
                    random=random.Random(seed))
    except NoSuchExample:
        return None
    except Exception:
        return None


def shrink_failures(acc, strategy, bucket_of, seed, limit=3, budget=20):
    """Collect-then-shrink: for each new (unknown) bucket of this shard try to
    replace its recorded case by a Hypothesis-minimised one."""
    done = 0
    for bucket, rec in list(acc.failures.items()):
        if match_known(acc.prop, bucket) or done >= limit:
            continue
        done += 1
        t0 = time.time()

        def pred(c, bucket=bucket):
            if time.time() - t0 > budget:
                return False
            try:
                return bucket_of(c) == bucket
            except Exception:
                return False
        small = hyp_shrink(strategy, pred, seed)
        if small is not None:
            small = jsonable(small)
            size = case_size(small)
            if size < rec['size']:
                rec.update(case=small, size=size, shrunk=True)


# ------------------------------------------------------------------ driver

def load_check(prop):
    return importlib.import_module('checks.%s' % prop.lower())


def _limit_memory():
    # a change to the code under test that allocates without end must end
    # in a MemoryError inside one worker, not take the machine down
    import resource
    lim = 8 << 30
    soft, hard = resource.getrlimit(resource.RLIMIT_AS)
    if soft == resource.RLIM_INFINITY or soft > lim:
        resource.setrlimit(resource.RLIMIT_AS, (lim, hard))


def _worker(args):
    prop, shard = args
    mod = load_check(prop)
    _limit_memory()
    t0 = time.time()
    try:
        res = mod.run_shard(shard)
    except BaseException:
        return dict(error=traceback.format_exc(), shard=shard)
    res['wall'] = time.time() - t0
    res['shard'] = shard if len(canon(shard)) < 300 else '...'
    return res


def run_check(prop, tier, seed):
    import DocumentTemplate
    mod = load_check(prop)
    t0 = time.time()
    shards = mod.plan(tier, seed)
    n = min(NCPU, max(1, len(shards)))
    results = []
    if n == 1 or os.environ.get('VERIF_SERIAL'):
        for s in shards:
            results.append(_worker((prop, s)))
    else:
        ctx = multiprocessing.get_context('fork')
        with ctx.Pool(n) as pool:
            for r in pool.imap_unordered(_worker, [(prop, s) for s in shards],
                                         chunksize=1):
                results.append(r)
    errors = [r for r in results if 'error' in r]
    if errors:
        for e in errors[:3]:
            print('HARNESS-ERROR in shard %r:\n%s' % (e['shard'], e['error']))
        return 2

    if os.environ.get('VERIF_DEBUG'):
        for r in sorted(results, key=lambda r: -r.get('wall', 0))[:8]:
            print('shard %.1fs %s' % (r.get('wall', 0),
                                      str(r.get('shard'))[:150]))
    evals = sum(r['evals'] for r in results)
    nt = set()
    for r in results:
        nt |= r['nt_hashes']
    distinct_nt = len(nt) + sum(r['nt_counted'] for r in results)
    hist = collections.Counter()
    for r in results:
        hist.update(r['hist'])
    samples = []
    for r in sorted(results, key=lambda r: canon(r['shard'])):
        for s in r['samples']:
            if len(samples) < 12:
                samples.append(s)
    failures = {}
    for r in results:
        for b, rec in r['failures'].items():
            cur = failures.get(b)
            if cur is None:
                failures[b] = dict(rec)
            else:
                cnt = cur['count'] + rec['count']
                if rec['size'] < cur['size']:
                    cur.update(rec)
                cur['count'] = cnt
    notes = sorted({n_ for r in results for n_ in r.get('notes', [])})

    known_hits = {}
    violations = []
    for b in sorted(failures):
        rec = failures[b]
        k = match_known(prop, b)
        if k is not None:
            kid = k.get('id', b)
            cur = known_hits.setdefault(kid, dict(finding=k, count=0,
                                                  buckets=[]))
            cur['count'] += rec['count']
            cur['buckets'].append(b)
        else:
            violations.append((b, rec))

    for kid in sorted(known_hits):
        kh = known_hits[kid]
        print('KNOWN-FINDING: property=%s %s [id=%s, %d case(s) this run]' % (
            prop, kh['finding'].get('what', kid), kid, kh['count']))

    rc = 0
    for b, rec in violations[:10]:
        path = save_replay(prop, b, rec)
        print('VIOLATION property=%s replay=%s' % (prop, path))
        print('  bucket: %s\n  detail: %s' % (b, rec['msg'][:600]))
        rc = 1
    if len(violations) > 10:
        print('  (%d further buckets not written)' % (len(violations) - 10))

    exhaustive = tier in getattr(mod, 'EXHAUSTIVE', ())
    coverage = dict(
        evaluations=evals,
        distinct_nontrivial=distinct_nt,
        rule=mod.RULE,
        samples=samples,
        classes=dict(sorted(hist.items())),
        shards=len(shards),
        known_findings_hit={k: v['count'] for k, v in known_hits.items()},
        excluded_known_buckets=sorted(
            b for v in known_hits.values() for b in v['buckets'])[:50],
        new_buckets=[b for b, _ in violations][:50],
        repo_src=os.path.dirname(os.path.dirname(DocumentTemplate.__file__)),
        notes=notes,
    )
    if exhaustive:
        coverage['exhaustive'] = True
    extra = getattr(mod, 'evidence_extra', None)
    if extra:
        coverage.update(extra(tier, results))
    ev = dict(property_id=prop, tier=tier, seed=seed, level='exploration',
              coverage=coverage,
              assumptions=list(getattr(mod, 'ASSUMPTIONS', [])),
              wall_s=round(time.time() - t0, 2), violations=len(violations))
    # VERIF_EVIDENCE_DIR: used only by tools/seedtest.py and the mutant
    # self-test so that runs against a modified tree do not overwrite the
    # evidence of the real tree
    evdir = os.environ.get('VERIF_EVIDENCE_DIR') or \
        os.path.join(ROOT, 'evidence')
    os.makedirs(evdir, exist_ok=True)
    tmp = os.path.join(evdir, '%s.json.tmp' % prop)
    with open(tmp, 'w') as f:
        json.dump(ev, f, indent=1, sort_keys=True, default=repr)
        f.write('\n')
    os.replace(tmp, os.path.join(evdir, '%s.json' % prop))
    print('%s %s seed=%d: %d evaluations, %d distinct non-trivial, '
          '%d known-finding bucket(s), %d violation bucket(s), %.1fs' % (
              prop, tier, seed, evals, distinct_nt,
              sum(len(v['buckets']) for v in known_hits.values()),
              len(violations), time.time() - t0))
    return rc


def save_replay(prop, bucket, rec):
    d = os.path.join(ROOT, 'replays', prop)
    os.makedirs(d, exist_ok=True)
    body = dict(property=prop, bucket=bucket, case=rec['case'],
                msg=rec['msg'], count=rec.get('count', 1),
                shrunk=bool(rec.get('shrunk')))
    name = hashlib.sha1(canon([bucket, rec['case']]).encode()).hexdigest()[:16]
    path = os.path.join(d, name + '.json')
    with open(path, 'w') as f:
        json.dump(body, f, indent=1, sort_keys=True)
        f.write('\n')
    return path


def run_replay(prop, path):
    mod = load_check(prop)
    with open(path) as f:
        body = json.load(f)
    case = body['case'] if isinstance(body, dict) and 'case' in body else body
    out = mod.replay(case)
    if out is None:
        print('replay %s: property %s holds on this case' % (path, prop))
        return 0
    bucket, msg = out
    k = match_known(prop, bucket)
    if k is not None:
        print('KNOWN-FINDING: property=%s %s [id=%s]' % (
            prop, k.get('what', bucket), k.get('id', bucket)))
        return 0
    print('VIOLATION property=%s replay=%s' % (prop, path))
    print('  bucket: %s\n  detail: %s' % (bucket, str(msg)[:1500]))
    return 1


def main(argv):
    if not argv or argv[0] in ('-h', '--help'):
        print(__doc__)
        return 2
    if argv[0] == '--list':
        for c in CHECK_IDS:
            try:
                load_check(c)
                print(c)
            except ModuleNotFoundError:
                pass
        return 0
    prop = argv[0].upper()
    if len(argv) >= 3 and argv[1] == '--replay':
        return run_replay(prop, argv[2])
    tier = argv[1] if len(argv) > 1 else os.environ.get('VERIF_TIER', 'quick')
    if tier not in ('quick', 'thorough'):
        print('unknown tier %r' % tier)
        return 2
    seed = int(os.environ.get('VERIF_SEED', '1') or 1)
    return run_check(prop, tier, seed)
