"""Deterministic thread scheduler for C18.

Worker threads run under sys.settrace; at every *line* event in a frame
whose code lives in the package directory the running thread spends one unit
of its step budget and, when the budget is used up, hands control back to
the scheduler (per-thread semaphores: exactly one thread runs at any time, so
an execution is a pure function of the schedule).  DT_String.COOKLOCK is
replaced by a cooperative lock that reports "blocked" to the scheduler
instead of blocking in C, so lock hand-over is part of the explored schedule
and cannot deadlock the harness.
"""
import os
import sys
import threading


class CoopLock:
    def __init__(self, sched):
        self.sched = sched
        self.owner = None

    def __enter__(self):
        while self.owner is not None:
            self.sched.yield_blocked()
        self.owner = threading.get_ident()
        return self

    def __exit__(self, *a):
        self.owner = None

    # threading.Lock API, in case the code under test uses it that way
    def acquire(self, blocking=True, timeout=-1):
        self.__enter__()
        return True

    def release(self):
        self.owner = None


class Sched:
    """schedule = list of (tid, nsteps) segments; after the list is exhausted
    the threads run to completion in tid order."""

    def __init__(self, fns, segments, pkg_dirs, only_files=None):
        self.fns = fns
        # only_files: count (and preempt at) line steps of these source
        # files only, e.g. ('DT_String.py',) for the compile / call path
        self.only = tuple(only_files) if only_files else None
        self.segs = list(segments)
        self.n = len(fns)
        self.go = [threading.Semaphore(0) for _ in fns]
        self.back = threading.Semaphore(0)
        self.tids = {}
        self.done = [False] * self.n
        self.res = [None] * self.n
        self.blocked = [False] * self.n
        self.budget = [0] * self.n
        self.steps = [0] * self.n
        self.pkg_dirs = tuple(pkg_dirs)
        self.preempted_at = []          # (tid, file, function, line)

    def _trace(self, tid):
        budget, steps = self.budget, self.steps
        pkg = self.pkg_dirs

        def local(frame, event, arg):
            if event == 'line':
                steps[tid] += 1
                budget[tid] -= 1
                if budget[tid] == 0:
                    self.preempted_at.append((
                        tid, os.path.basename(frame.f_code.co_filename),
                        frame.f_code.co_name, frame.f_lineno))
                    self.back.release()
                    self.go[tid].acquire()
            return local

        only = self.only

        def glob(frame, event, arg):
            fn = frame.f_code.co_filename
            if fn.startswith(pkg) and (only is None or
                                       os.path.basename(fn) in only):
                return local
            return None
        return glob

    def yield_blocked(self):
        tid = self.tids[threading.get_ident()]
        self.blocked[tid] = True
        self.back.release()
        self.go[tid].acquire()
        self.blocked[tid] = False

    def _run(self, tid):
        self.tids[threading.get_ident()] = tid
        self.go[tid].acquire()
        sys.settrace(self._trace(tid))
        try:
            self.res[tid] = ('ok', self.fns[tid]())
        except BaseException as e:
            self.res[tid] = ('exc', type(e).__name__)
        finally:
            sys.settrace(None)
            self.done[tid] = True
            self.back.release()

    def run(self):
        import DocumentTemplate.DT_String as DTS
        old = DTS.COOKLOCK
        DTS.COOKLOCK = CoopLock(self)
        try:
            ths = [threading.Thread(target=self._run, args=(i,))
                   for i in range(self.n)]
            for t in ths:
                t.start()
            segs = self.segs
            guard = 0
            while not all(self.done):
                guard += 1
                if guard > 100000:
                    raise RuntimeError('scheduler livelock')
                live = [i for i in range(self.n) if not self.done[i]]
                runnable = [i for i in live if not self.blocked[i]] or live
                if segs and self.done[segs[0][0]]:
                    segs.pop(0)
                    continue
                if segs and segs[0][0] in runnable:
                    tid, nst = segs.pop(0)
                elif segs and segs[0][0] in live:
                    # the scheduled thread waits for the lock: let the lock
                    # holder (any runnable thread) advance
                    tid, nst = runnable[0], -1
                    if self.blocked[tid]:
                        # everybody blocked: give each a turn
                        tid = live[guard % len(live)]
                else:
                    tid, nst = runnable[0], -1
                self.budget[tid] = nst
                self.go[tid].release()
                self.back.acquire()
            for t in ths:
                t.join()
        finally:
            DTS.COOKLOCK = old
        return self.res, list(self.steps)
